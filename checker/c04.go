package main

import (
	"fmt"
	"go/ast"
	"go/constant"
	"go/token"
	"go/types"
	"sort"
	"strings"

	"golang.org/x/tools/go/packages"
	"golang.org/x/tools/go/ssa"
)

func init() { register("C04", checkC04) }

// XML Names (5th ed.) NCNameStartChar / NCNameChar
var ncNameStart = ISet{
	{'A', 'Z'}, {'_', '_'}, {'a', 'z'}, {0xC0, 0xD6}, {0xD8, 0xF6}, {0xF8, 0x2FF}, {0x370, 0x37D}, {0x37F, 0x1FFF},
	{0x200C, 0x200D}, {0x2070, 0x218F}, {0x2C00, 0x2FEF}, {0x3001, 0xD7FF}, {0xF900, 0xFDCF}, {0xFDF0, 0xFFFD}, {0x10000, 0xEFFFF},
}.norm()
var ncNameChar = ncNameStart.union(ISet{{'-', '-'}, {'.', '.'}, {'0', '9'}, {0xB7, 0xB7}, {0x300, 0x36F}, {0x203F, 0x2040}})

// RFC 6020 identifier
var yangIdStart = ISet{{'A', 'Z'}, {'_', '_'}, {'a', 'z'}}.norm()
var yangIdChar = yangIdStart.union(ISet{{'-', '-'}, {'.', '.'}, {'0', '9'}})

func xutilsTok(w *World, name string) int64 {
	v, ok := pkgConstInt(w, "xpath/xutils", name)
	if !ok {
		panic(undecided{"xutils token " + name})
	}
	return v
}

func checkC04(w *World, r *Report) {
	r.NotDecided = []string{
		"language equivalence of lexer+grammar with 'the supported subset' as a whole (only the finite set/table agreements below are decided)",
		"which names a plugin or user function checker adds at run time",
	}
	r.Assumptions = []string{"goyacc's generated driver rejects any token number it has no action for"}

	// ---- R04.1 ----
	r.Rule("R04.1", "tokenCanBeOperator is false exactly after: start of input, '@', '::', '(', '[', ',', and every Operator token (XPath 1.0 §3.7)", 1)
	r.guard("R04.1", func() {
		got := tokenCannotPrecedeOperator(w)
		want := isetOf(0, '@', '(', '[', ',', '*', '/', '|', '+', '-')
		for _, n := range []string{"DBLCOLON", "AND", "OR", "MOD", "DIV", "DBLSLASH", "EQ", "NE", "LT", "LE", "GT", "GE"} {
			want = want.union(isetOf(xutilsTok(w, n)))
		}
		r.Check(got.equal(want), "R04.1", "CommonLex.tokenCanBeOperator", token.NoPos, "cannot-precede set = "+got.String(),
			"cannot-precede set is "+got.String()+"; §3.7 requires "+want.String()+" (missing "+want.minus(got).String()+", extra "+got.minus(want).String()+")")
	})

	// ---- R04.2 ----
	r.Rule("R04.2", "operator names = {and,or,mod,div}; node-type names = the four of XPath; every production using NODETYPE, AXISNAME, '::', '@' or '//' reports UnsupportedName; the parse-error latch only ever stores non-nil errors and CreateProgram returns an error whenever the latch or the lexer error is set", 12)
	r.guard("R04.2", func() { c04Unsupported(w, r) })

	// ---- R04.3 ----
	r.Rule("R04.3", "name character classes: CommonLex = XML-Names NCNameStartChar/NCNameChar; leafref lexer = RFC 6020 identifier", 4)
	r.guard("R04.3", func() {
		pe := NewPredEval(w, intDom{})
		chk := func(pkg, typ, m string, want ISet, spec string) {
			f := w.Method(pkg, typ, m)
			got := pe.TrueSet(f).(ISet)
			r.Check(got.equal(want), "R04.3", typ+"."+m, token.NoPos, fmt.Sprintf("%d ranges = %s", len(got), spec),
				fmt.Sprintf("accepts %s; %s is %s (missing %s, extra %s)", got, spec, want, want.minus(got), got.minus(want)))
		}
		chk("xpath", "CommonLex", "IsNameStartChar", ncNameStart, "NCNameStartChar")
		chk("xpath", "CommonLex", "IsNameChar", ncNameChar, "NCNameChar")
		chk("xpath/grammars/leafref", "leafrefLex", "IsNameStartChar", yangIdStart, "RFC 6020 identifier start")
		chk("xpath/grammars/leafref", "leafrefLex", "IsNameChar", yangIdChar, "RFC 6020 identifier char")
	})

	// ---- R04.4 ----
	r.Rule("R04.4", "token maps: every key xutils.X of commonTo<G>TokenMap maps to <G>'s token X, the reverse map is its inverse, and every xutils token the grammar declares is mapped", 60)
	r.guard("R04.4", func() {
		for _, g := range []struct{ gname, pkg, fwd, rev string }{
			{"expr", "xpath/grammars/expr", "commonToExprTokenMap", "exprToCommonTokenMap"},
			{"leafref", "xpath/grammars/leafref", "commonToLeafrefTokenMap", "leafrefToCommonTokenMap"},
			{"path_eval", "xpath/grammars/path_eval", "commonToPathEvalTokenMap", "pathEvalToCommonTokenMap"},
		} {
			c04TokenMap(w, r, g.gname, g.pkg, g.fwd, g.rev)
		}
	})

	// ---- R04.5 ----
	r.Rule("R04.5", "arity: each FUNC '(' … ')' production passes CodeBltin the number of Expr symbols it matched, and CodeBltin rejects when that differs from the declared arity", 5)
	r.guard("R04.5", func() { c04Arity(w, r) })

	// ---- R04.6 ----
	r.Rule("R04.6", "every lexer exit with the ERR token is preceded by recording a lexer error (so CreateProgram reports it), and ERR occurs in no grammar rule", 20)
	r.guard("R04.6", func() { c04ErrToken(w, r) })

	// ---- R04.7 ----
	r.Rule("R04.7", "the empty string is rejected before lexing by every machine constructor", 3)
	r.guard("R04.7", func() { c04Empty(w, r) })

	// ---- R04.8 ----
	r.Rule("R04.8", "all three grammars regenerate with 0 conflicts; committed generated parsers equal goyacc's output", 5)
	r.guard("R04.8", func() {
		for _, n := range []string{"expr", "path_eval", "leafref"} {
			g := w.Gram[n]
			sr, rr, ok := g.Conflicts()
			r.Check(ok && sr == 0 && rr == 0, "R04.8", n+" conflicts", token.NoPos, "0/0", fmt.Sprintf("%d shift/reduce, %d reduce/reduce", sr, rr))
			if g.Committed != nil {
				a, e1 := normalizeGo(g.Committed)
				b, e2 := normalizeGo(g.Generated)
				r.Check(e1 == nil && e2 == nil && a == b, "R04.8", n+" committed = regenerated", token.NoPos, "identical programs",
					"committed generated parser differs from goyacc("+n+".y): "+firstDiffLine(a, b))
			}
		}
	})

	// ---- R04.9 ----
	r.Rule("R04.9", "function names: a name followed by '(' is looked up in the function table and an unknown name is an error; leafref accepts only current()", 3)
	r.guard("R04.9", func() { c04FuncLookup(w, r) })

	// ---- R04.11 ----
	r.Rule("R04.11", "the invalid-UTF-8 marker rune can never become part of a token: every append to the token buffer in ConstructToken is preceded by a test for xutils.ERR that records a lexer error and leaves", 2)
	r.guard("R04.11", func() { c04ErrRune(w, r) })

	// ---- R04.10 ----
	r.Rule("R04.12", "token adjacency: every pair of tokens the must/when grammars accept next to each other (bigram set of the language, computed from the .y files) is allowed by the XPath 1.0 productions at token-class level — in particular '[' never follows '.' or '..'", 60)
	r.guard("R04.12", func() { c04Bigrams(w, r) })

	r.Rule("R04.13", "the leafref grammar's token language equals RFC 6020 path-arg up to 4-grams: the 2-, 3- and 4-gram sets of leafref.y and of the ABNF (transcribed as a grammar over the same tokens) are equal", 6)
	r.guard("R04.13", func() { c04LeafrefLanguage(w, r) })

	r.Rule("R04.14", "the must/when grammars accept only XPath 1.0 token shapes: their class-level 3- and 4-gram sets are subsets of those of the XPath 1.0 grammar (transcribed in the checker), apart from the listed, reviewed deviations", 4)
	r.guard("R04.14", func() { c04XPathShapes(w, r) })

	r.Rule("R04.15", "stray characters are rejected: the characters the tokeniser consumes silently — LexCommon's skip arm and the look-ahead helper isWhitespace — are exactly XPath ExprWhitespace {SP, TAB, CR, LF}", 2)
	r.guard("R04.15", func() { c04Whitespace(w, r) })

	r.Rule("R04.16", "the leafref lexer hands the parser a name or function token only from its own LexName: every CommonLex.Lex* method that can return NAMETEST or FUNC is overridden by the leafref lexer (so '*' is not a node identifier)", 2)
	r.guard("R04.16", func() { c04LeafrefOverrides(w, r) })

	r.Rule("R04.17", "a QName's local part is an NCName: every character from which a LexName starts collecting a name token has passed IsNameStartChar (the first by LexCommon, the one after ':' in LexName itself)", 5)
	r.guard("R04.17", func() { c04LocalPartStart(w, r) })

	r.Rule("R04.18", "no whitespace inside a token: the whitespace-skipping look-ahead helpers are called from the LexName methods only (name disambiguation of XPath §3.7); operators, numbers and literals are formed from adjacent characters", 4)
	r.guard("R04.18", func() { c04NoGluedTokens(w, r) })

	r.Rule("R04.19", "a literal needs its closing quote: LexLiteral reaches its LITERAL return only when the closing quote was seen or through ConstructToken, which reports a missing terminator", 1)
	r.guard("R04.19", func() { c04LiteralClosed(w, r) })

	r.Rule("R04.23", "Number ::= Digits ('.' Digits?)? | '.' Digits has no length limit: the number lexer reads the digits with the floating-point reader alone, never with an integer parser (which rejects everything from 2^63 on)", 1)
	r.guard("R04.23", func() {
		noIntegerParser(w, r, "R04.23", w.SSAFunc(w.Method("xpath", "CommonLex", "LexNum")), "the value of a number token", "an integer literal of 19 or more digits is rejected as a bad number although the same value written with a decimal point is accepted")
	})

	r.Rule("R04.20", "end of input is signalled only when the input is exhausted: the lexer never returns a decoded rune equal to the end marker (a NUL character is an invalid character, not the end of the expression)", 1)
	r.guard("R04.20", func() { c04NoFalseEOF(w, r) })

	r.Rule("R04.21", "whether a string is accepted depends on the string and the prefix map alone: the compilers keep no package-level state written while compiling (no memo of compiled expressions, which would skip the prefix lookup for a text seen before) — same analysis as R06.3", 3)
	r.guard("R04.21", func() { c06GlobalsRule(w, r, "R04.21") })

	r.Rule("R04.22", "every character the expression lexers see has been decoded: each exit of CommonLex.Next and of the look-ahead reader next() returns the pushed-back character, a constant (EOF/ERR), or the rune utf8.DecodeRune produced — the latter only on a path where the (RuneError, size 1) result of an invalid encoding has been excluded; no byte of the input is handed out undecoded", 2)
	r.guard("R04.22", func() { c04DecodedOnly(w, r) })

	r.Rule("R04.10", "number tokens: the characters LexNum collects are a subset of XPath Number's alphabet {0-9 .}", 1)
	r.guard("R04.10", func() {
		f := w.Method("xpath", "CommonLex", "LexNum")
		fd, _ := w.FuncDecl(f)
		set := lexNumAlphabet(w)
		want := ISet{{'0', '9'}, {'.', '.'}}.norm()
		extra := set.minus(want)
		r.Check(len(extra) == 0, "R04.10", "CommonLex.LexNum matcher", fd.Pos(), "alphabet "+set.String(),
			"number tokens may contain "+extra.String()+": exponent forms such as 1e3 are accepted although XPath 1.0 Number has no exponent")
	})
}

// lexNumAlphabet: the characters LexNum's matcher — the function value it
// hands to ConstructToken — accepts, read off its result condition (switch,
// if-chain or a single expression alike).
func lexNumAlphabet(w *World) ISet {
	var set ISet
	found := false
	if lf := w.SSAFunc(w.Method("xpath", "CommonLex", "LexNum")); lf != nil {
		for _, b := range lf.Blocks {
			for _, in := range b.Instrs {
				c, ok := in.(*ssa.Call)
				if !ok || c.Call.StaticCallee() == nil || nm(c.Call.StaticCallee()) != "ConstructToken" || len(c.Call.Args) < 3 {
					continue
				}
				v := c.Call.Args[2]
				if ct, ok := v.(*ssa.ChangeType); ok {
					v = ct.X
				}
				var mf *ssa.Function
				switch x := v.(type) {
				case *ssa.MakeClosure:
					mf = x.Fn.(*ssa.Function)
				case *ssa.Function:
					mf = x
				}
				if mf == nil || len(mf.Params) != 1 || len(ssaLoops(mf)) > 0 {
					continue
				}
				sym := NewSym(w)
				sym.Expand = true
				if vals, ok := pcValuesWhen(sym.ResultCond(mf, nil), "p0"); ok {
					set, found = vals, true
				}
			}
		}
	}
	if !found {
		panic(undecided{"LexNum matcher"})
	}
	return set
}

func c04Unsupported(w *World, r *Report) {
	// operator names (shared extraction with R03.8)
	toks, _ := spellingTokens(w, "exprLex", "xpath/grammars/expr")
	var names []string
	for k := range toks {
		if k[0] >= 'a' && k[0] <= 'z' {
			names = append(names, k)
		}
	}
	sort.Strings(names)
	r.Check(strings.Join(names, ",") == "and,div,mod,or", "R04.2", "operator names", token.NoPos, "and,div,mod,or", "operator-name table is {"+strings.Join(names, ",")+"}")
	// node types
	pe := NewPredEval(w, strDom{})
	nt := pe.TrueSet(w.Method("xpath", "CommonLex", "nameIsNodeType")).(SSet)
	want := ssetOf("comment", "text", "processing-instruction", "node")
	r.Check(nt.equal(want), "R04.2", "CommonLex.nameIsNodeType", token.NoPos, nt.String(), "node-type names are "+nt.String()+", XPath has "+want.String())

	unsupported := w.Method("xpath", "ProgBuilder", "UnsupportedName")
	for _, gname := range []string{"expr", "path_eval"} {
		g := w.Gram[gname]
		gi := w.GenInfo(gname)
		bad := map[string]bool{"NODETYPE": true, "AXISNAME": true, "DBLCOLON": true, "'@'": true, "DBLSLASH": true}
		n := 0
		for _, p := range g.Prods {
			hit := ""
			for _, s := range p.RHS {
				if bad[s.Name] {
					hit = s.Name
				}
			}
			if hit == "" {
				continue
			}
			n++
			has := false
			for _, c := range gi.BuilderCalls(p.Num) {
				if c.Callee == unsupported {
					has = true
				}
			}
			r.Check(has, "R04.2", gname+": "+p.String(), token.NoPos, "calls UnsupportedName", "production consumes unsupported token "+hit+" without reporting UnsupportedName: the construct would be silently accepted")
		}
		if n == 0 {
			r.Fail("R04.2", gname+" unsupported productions", token.NoPos, "no production mentions the unsupported tokens; the lexer still produces them")
		}
	}
	// leafref grammar must not mention them at all
	for _, p := range w.Gram["leafref"].Prods {
		for _, s := range p.RHS {
			switch s.Name {
			case "NODETYPE", "AXISNAME", "DBLCOLON", "'@'", "DBLSLASH", "'*'", "NUM", "LITERAL":
				r.Fail("R04.2", "leafref: "+p.String(), token.NoPos, "path-arg grammar uses token "+s.Name+" which RFC 6020 path-arg does not have")
			}
		}
	}
	// error latch
	parseErr := w.Field("xpath", "ProgBuilder", "parseErr")
	nw := 0
	for _, pk := range w.All {
		for _, fd := range funcDecls(pk) {
			for _, a := range assignsToField(pk, fd.Body, parseErr) {
				nw++
				as, ok := a.(*ast.AssignStmt)
				okv := false
				if ok && len(as.Rhs) == 1 {
					if ce, ok := as.Rhs[0].(*ast.CallExpr); ok {
						if f := calleeOf(pk, ce); f != nil && f.Pkg() != nil && (f.FullName() == "fmt.Errorf" || f.FullName() == "errors.New") {
							okv = true
						}
					}
				}
				r.Check(okv, "R04.2", "parseErr store in "+funcDeclName(fd), a.Pos(), "stores a freshly built non-nil error", "parseErr may be overwritten with a value that is not a freshly constructed error (could clear the latch)")
			}
		}
	}
	if nw < 3 {
		r.Fail("R04.2", "parseErr writers", token.NoPos, fmt.Sprintf("only %d writers of the parse-error latch found (expected Error, UnsupportedName, CodeBltin)", nw))
	}
	// CreateProgram: success return only under both-nil
	cp := w.Method("xpath", "CommonLex", "CreateProgram")
	fd, _ := w.FuncDecl(cp)
	okShape, okRest := false, true
	if cf := w.SSAFunc(cp); cf != nil && len(ssaLoops(cf)) == 0 {
		sym := NewSym(w)
		sym.Expand = false
		lexErrF := w.Field("xpath", "CommonLex", "err")
		getErr := w.Method("xpath", "CommonLex", "GetError")
		isLoadOf := func(v ssa.Value, fld *types.Var) bool {
			ld, ok := v.(*ssa.UnOp)
			if !ok || ld.Op != token.MUL {
				return false
			}
			fa, ok := ld.X.(*ssa.FieldAddr)
			return ok && isFieldAddrOf(fa, fld)
		}
		classify := func(a *pcAtom) string {
			if a.op != token.EQL || a.x == nil {
				return ""
			}
			for _, pair := range [][2]ssa.Value{{a.x, a.y}, {a.y, a.x}} {
				if !isNilConst(pair[1]) {
					continue
				}
				if isLoadOf(pair[0], parseErr) {
					return "parseok"
				}
				if isLoadOf(pair[0], lexErrF) {
					return "lexok"
				}
				if c, ok := pair[0].(*ssa.Call); ok && c.Call.StaticCallee() != nil && c.Call.StaticCallee().Object() == types.Object(getErr) {
					return "lexok"
				}
			}
			return ""
		}
		r1 := sym.retTable(cf, 1)
		succ := pcZ
		for _, row := range r1 {
			if c, ok := row.val.(*ssa.Call); ok && c.Call.StaticCallee() != nil && c.Call.StaticCallee().String() == "fmt.Errorf" {
				continue // a failure exit with a freshly built error
			}
			if ex, ok := row.val.(*ssa.Extract); ok {
				if c, ok := ex.Tuple.(*ssa.Call); ok && c.Call.StaticCallee() != nil && c.Call.StaticCallee().Name() == "GetMainProg" {
					succ = pcOrF(succ, row.cond)
					continue
				}
			}
			okRest = false
		}
		okShape = pcCompare(succ, classify, func(env map[string]bool) bool { return env["parseok"] && env["lexok"] }) == ""
	}
	r.Check(okShape && okRest, "R04.2", "CommonLex.CreateProgram", fd.Pos(), "program returned only when parseErr == nil && lexer error == nil; every other return builds an error",
		"CreateProgram can return a program although a parse or lexer error was recorded (or return without an error on the failure path)")
}

func flattenAnd(e ast.Expr) []ast.Expr {
	e = ast.Unparen(e)
	if be, ok := e.(*ast.BinaryExpr); ok && be.Op == token.LAND {
		return append(flattenAnd(be.X), flattenAnd(be.Y)...)
	}
	return []ast.Expr{e}
}

func isNilIdent(p *packages.Package, e ast.Expr) bool {
	id, ok := ast.Unparen(e).(*ast.Ident)
	if !ok {
		return false
	}
	_, isNil := p.TypesInfo.Uses[id].(*types.Nil)
	return isNil
}

func c04TokenMap(w *World, r *Report, gname, pkg, fwd, rev string) {
	g := w.Gram[gname]
	f := constIntMap(w, pkg, fwd)
	rv := constIntMap(w, pkg, rev)
	// name each xutils token
	xp := w.Pkg("xpath/xutils")
	xnames := map[int64]string{}
	for _, n := range xp.Types.Scope().Names() {
		if c, ok := scopeLookup(xp.Types.Scope(), n).(*types.Const); ok && n == strings.ToUpper(n) && c.Val().Kind() == constant.Int {
			v, _ := constant.Int64Val(c.Val())
			xnames[v] = n
		}
	}
	var keys []int64
	for k := range f {
		keys = append(keys, k)
	}
	sort.Slice(keys, func(i, j int) bool { return keys[i] < keys[j] })
	for _, k := range keys {
		name := xnames[k]
		c := fmt.Sprintf("%s[xutils.%s]", fwd, name)
		want, ok := pkgConstInt(w, pkg, name)
		if name == "" || !ok {
			r.Fail("R04.4", c, token.NoPos, "key is not a named xutils token with a same-named grammar token")
			continue
		}
		r.Check(f[k] == want, "R04.4", c, token.NoPos, "→ "+gname+"."+name, fmt.Sprintf("maps to %d, grammar token %s is %d: the parser would see a different token than the lexer meant", f[k], name, want))
		back, ok := rv[f[k]]
		r.Check(ok && back == k, "R04.4", fmt.Sprintf("%s[%s.%s]", rev, gname, name), token.NoPos, "inverse", "reverse map is not the inverse of the forward map for this token")
	}
	r.Check(len(rv) == len(f), "R04.4", rev+" size", token.NoPos, fmt.Sprintf("%d entries", len(rv)), fmt.Sprintf("reverse map has %d entries, forward map %d", len(rv), len(f)))
	// every declared grammar token with an xutils namesake must be mapped
	for _, t := range g.TokenList {
		if v, ok := pkgConstInt(w, "xpath/xutils", t); ok {
			_, mapped := f[v]
			r.Check(mapped, "R04.4", gname+" token "+t+" mapped", token.NoPos, "in "+fwd, "grammar declares token "+t+" and the common lexer produces xutils."+t+", but the map lacks it: the parser can never receive it")
		}
	}
}

func c04Arity(w *World, r *Report) {
	codeBltin := w.Method("xpath", "ProgBuilder", "CodeBltin")
	for _, gname := range []string{"expr"} {
		g := w.Gram[gname]
		gi := w.GenInfo(gname)
		n := 0
		for _, p := range g.Prods {
			if len(p.RHS) < 3 || p.RHS[0].Name != "FUNC" || p.RHS[1].Name != "'('" {
				continue
			}
			n++
			args := 0
			for _, s := range p.RHS {
				if s.Name == "Expr" {
					args++
				}
			}
			ok := false
			got := int64(-1)
			for _, c := range gi.BuilderCalls(p.Num) {
				if c.Callee == codeBltin && len(c.Call.Args) == 2 {
					if v, isC := ConstInt(c.Pkg, c.Call.Args[1]); isC {
						got = v
						ok = v == int64(args)
					}
				}
			}
			r.Check(ok, "R04.5", gname+": "+p.String(), token.NoPos, fmt.Sprintf("CodeBltin(_, %d)", args), fmt.Sprintf("production matches %d argument(s) but tells CodeBltin %d", args, got))
		}
		if n == 0 {
			r.Fail("R04.5", gname+" FUNC productions", token.NoPos, "none found")
		}
	}
	// CodeBltin compares numArgs with len(sym.argTypeCheckers) and latches an error:
	// the store to parseErr is reached exactly when the two differ
	fd, _ := w.FuncDecl(codeBltin)
	atc := w.Field("xpath", "Symbol", "argTypeCheckers")
	parseErr := w.Field("xpath", "ProgBuilder", "parseErr")
	ok := false
	if cf := w.SSAFunc(codeBltin); cf != nil && len(cf.Params) >= 3 {
		sym := NewSym(w)
		isArity := func(v ssa.Value) bool {
			arg, ok := isLenCall(v)
			if !ok {
				return false
			}
			ld, ok := arg.(*ssa.UnOp)
			if !ok {
				return false
			}
			fa, ok := ld.X.(*ssa.FieldAddr)
			return ok && isFieldAddrOf(fa, atc)
		}
		classify := func(a *pcAtom) string {
			if a.op == token.EQL && a.x != nil && (a.x == ssa.Value(cf.Params[2]) && isArity(a.y) || a.y == ssa.Value(cf.Params[2]) && isArity(a.x)) {
				return "same"
			}
			return ""
		}
		for _, b := range cf.Blocks {
			for _, in := range b.Instrs {
				if st, isSt := in.(*ssa.Store); isSt {
					if fa, isFa := st.Addr.(*ssa.FieldAddr); isFa && isFieldAddrOf(fa, parseErr) {
						if pcCompare(sym.PathCond(cf.Blocks[0], b, nil), classify, func(env map[string]bool) bool { return !env["same"] }) == "" {
							ok = true
						}
					}
				}
			}
		}
	}
	r.Check(ok, "R04.5", "ProgBuilder.CodeBltin arity test", fd.Pos(), "numArgs != len(sym.argTypeCheckers) ⇒ parseErr", "CodeBltin no longer rejects a call whose argument count differs from the declared arity")
}

func c04ErrToken(w *World, r *Report) {
	errTok := xutilsTok(w, "ERR")
	setErrI := w.interfaceMethod("xpath", "XpathLexer", "SetError")
	setErrM := w.Method("xpath", "CommonLex", "SetError")
	errField := w.Field("xpath", "CommonLex", "err")
	n := 0
	sym := NewSym(w)
	sym.Expand = false
	rec := &errRecorder{sym: sym, setErr: map[*types.Func]bool{setErrI: true, setErrM: true}, errField: errField}
	for _, pkgKey := range []string{"xpath", "xpath/grammars/expr", "xpath/grammars/leafref", "xpath/grammars/path_eval"} {
		p := w.Pkg(pkgKey)
		for _, fd := range funcDecls(p) {
			if isTestFile(w, fd.Pos()) {
				continue
			}
			// only functions whose first result is a token (int); Next()/next()
			// return the ERR *rune* sentinel, which LexCommon turns into a token
			if fd.Type.Results == nil || len(fd.Type.Results.List) == 0 {
				continue
			}
			if bt, ok := p.TypesInfo.TypeOf(fd.Type.Results.List[0].Type).(*types.Basic); !ok || bt.Kind() != types.Int {
				continue
			}
			tf, _ := p.TypesInfo.Defs[fd.Name].(*types.Func)
			sf := w.SSAFunc(tf)
			if sf == nil || fd.Body == nil {
				continue
			}
			for _, ex := range errTokenExits(sf, errTok) {
				n++
				ok := rec.recorded(sf, ex.blk, 0)
				r.Check(ok, "R04.6", fmt.Sprintf("%s.%s ERR exit #%d", pkgKey, funcDeclName(fd), n), ex.pos,
					"error recorded before ERR", "returns the ERR token without recording a lexer error: if the parser recovers nothing reports the failure")
			}
		}
	}
	// the Lex type switches: default arm must yield ERR
	for _, g := range []struct{ pkg, typ string }{{"xpath/grammars/expr", "exprLex"}, {"xpath/grammars/leafref", "leafrefLex"}, {"xpath/grammars/path_eval", "pathEvalLex"}} {
		m := w.Method(g.pkg, g.typ, "Lex")
		fd, _ := w.FuncDecl(m)
		ok := false
		if f := w.SSAFunc(m); f != nil && len(ssaLoops(f)) == 0 {
			// the token handed to the parser when the token value is of none of the kinds tested for
			// (every type test fails, the value is not nil) is ERR — possibly through the token mapping
			sym := NewSym(w)
			nTests := 0
			model := func(a *pcAtom) (bool, bool) {
				if ex, isEx := a.v.(*ssa.Extract); isEx && ex.Index == 1 {
					if ta, isTA := ex.Tuple.(*ssa.TypeAssert); isTA && ta.CommaOk {
						nTests++
						return false, true
					}
				}
				if a.op == token.EQL && a.x != nil && a.y != nil && (isNilConst(a.x) || isNilConst(a.y)) {
					if _, isIface := a.x.Type().Underlying().(*types.Interface); isIface {
						return false, true
					}
				}
				return false, false
			}
			all := true
			rows := 0
			for _, row := range sym.retTable(f, 0) {
				if reached, decided := pcEvalFree(row.cond, model); decided && !reached {
					continue
				}
				rows++
				v := row.val
				if c, isCall := v.(*ssa.Call); isCall && len(c.Call.Args) >= 1 && c.Call.StaticCallee() != nil && strings.HasPrefix(pkgPathOf(c.Call.StaticCallee()), modPath) {
					v = c.Call.Args[len(c.Call.Args)-1] // the mapping of common token values to the grammar's own
				}
				tv, decided := sym.ValueUnder(f, v, model, 0)
				// the mapping written in place: the entry of a read-only table for the token
				if decided {
					if _, _, idx, isTab := pcTableEntries(w, tv, true); isTab {
						tv, decided = sym.ValueUnder(f, idx, model, 0)
					}
				}
				k, isK := intConstOf(tv)
				if !decided || !isK || k != errTok {
					all = false
				}
			}
			ok = all && rows > 0 && nTests > 0
		}
		r.Check(ok, "R04.6", g.typ+".Lex default arm", fd.Pos(), "unknown token value kinds become ERR", "a token value of unexpected kind is passed to the parser instead of ERR")
	}
	for _, gname := range []string{"expr", "leafref", "path_eval"} {
		used := false
		for _, p := range w.Gram[gname].Prods {
			for _, s := range p.RHS {
				if s.Name == "ERR" {
					used = true
				}
			}
		}
		r.Check(!used, "R04.6", gname+": ERR in no production", token.NoPos, "ERR is never derivable", "a production accepts the ERR token")
	}
}

func c04Empty(w *World, r *Report) { c04EmptyRule(w, r, "R04.7") }

func c04EmptyRule(w *World, r *Report, rule string) {
	for _, c := range []struct{ pkg, fn string }{
		{"xpath/grammars/expr", "newExprMachineInternal"},
		{"xpath/grammars/leafref", "NewLeafrefMachine"},
		{"xpath/grammars/path_eval", "newPathEvalMachineInternal"},
	} {
		f := w.Func(c.pkg, c.fn)
		fd, p := w.FuncDecl(f)
		exprParam := paramObj(p, fd, 0)
		ok := false
		if len(fd.Body.List) > 0 {
			if is, isIf := fd.Body.List[0].(*ast.IfStmt); isIf {
				if be, isB := ast.Unparen(is.Cond).(*ast.BinaryExpr); isB && be.Op == token.EQL {
					if ce, isC := ast.Unparen(be.X).(*ast.CallExpr); isC && len(ce.Args) == 1 && objOfIdent(p, ce.Args[0]) == exprParam {
						if v, isK := ConstInt(p, be.Y); isK && v == 0 {
							rets := returnsIn(is.Body)
							if len(rets) == 1 && len(rets[0].Results) == 2 && isNilIdent(p, rets[0].Results[0]) {
								if e, isE := rets[0].Results[1].(*ast.CallExpr); isE && calleeOf(p, e) != nil && calleeOf(p, e).FullName() == "fmt.Errorf" {
									ok = true
								}
							}
						}
					}
				}
			}
		}
		r.Check(ok, rule, c.pkg+"."+c.fn, fd.Pos(), "len(expr)==0 ⇒ (nil, error) first", "the empty expression is no longer rejected up front")
	}
	// the exported constructors all go through the internal ones
	for _, c := range []struct{ pkg, fn, via string }{
		{"xpath/grammars/expr", "NewExprMachine", "newExprMachineInternal"},
		{"xpath/grammars/expr", "NewExprMachineWithCustomFunctions", "newExprMachineInternal"},
		{"xpath/grammars/path_eval", "NewPathEvalMachine", "newPathEvalMachineInternal"},
		{"xpath/grammars/path_eval", "NewPathEvalMachineWithCustomFns", "newPathEvalMachineInternal"},
	} {
		fd, p := w.FuncDecl(w.Func(c.pkg, c.fn))
		r.Check(len(callsTo(p, fd.Body, w.Func(c.pkg, c.via))) == 1 && len(returnsIn(fd.Body)) == 1, rule, c.pkg+"."+c.fn, fd.Pos(), "delegates to "+c.via, "constructor bypasses the checked internal constructor")
	}
}

func c04FuncLookup(w *World, r *Report) {
	lookup := w.Func("xpath", "LookupXpathFunction")
	// CommonLex.LexName as a decision table: FUNC is answered only with the symbol a successful
	// lookup returned, and a name followed by '(' is never answered with anything but a
	// function / node-type token or ERR
	lfd, _ := w.FuncDecl(w.Method("xpath", "CommonLex", "LexName"))
	nnws := w.Method("xpath", "CommonLex", "NextNonWhitespaceStringIs")
	funcTok := xutilsTok(w, "FUNC")
	errTok := xutilsTok(w, "ERR")
	why := "no exit answers FUNC"
	if lf := w.SSAFunc(w.Method("xpath", "CommonLex", "LexName")); lf != nil && len(ssaLoops(lf)) == 0 {
		sym := NewSym(w)
		sym.Expand = false
		sym.ExpandReturns = true // an arm moved into a helper is read through
		allowed := map[int64]bool{}
		for _, t := range []string{"FUNC", "TEXTFUNC", "CURRENTFUNC", "DEREFFUNC", "NODETYPE", "ERR"} {
			allowed[xutilsTok(w, t)] = true
		}
		isParen := func(a *pcAtom) string {
			if c, ok := a.v.(*ssa.Call); ok && c.Call.StaticCallee() != nil && c.Call.StaticCallee().Object() == types.Object(nnws) && len(c.Call.Args) == 2 {
				if k, ok := c.Call.Args[1].(*ssa.Const); ok && k.Value != nil && k.Value.Kind() == constant.String && constant.StringVal(k.Value) == "(" {
					return "paren"
				}
			}
			return ""
		}
		r0, r1 := sym.retTable(lf, 0), sym.retTable(lf, 1)
		nFunc := 0
		why = ""
		for i := range r0 {
			tok, isTok := intConstOf(r0[i].val)
			if isTok && tok == funcTok {
				nFunc++
				ex, ok := stripIface(r1[i].val).(*ssa.Extract)
				var call *ssa.Call
				if ok && ex.Index == 0 {
					call, _ = ex.Tuple.(*ssa.Call)
				}
				if call == nil || call.Call.StaticCallee() == nil || call.Call.StaticCallee().Object() != types.Object(lookup) {
					why = "FUNC is answered with something other than the symbol LookupXpathFunction returned"
					continue
				}
				if msg := pcImplies(r0[i].cond, func(a *pcAtom) string {
					if e2, ok := a.v.(*ssa.Extract); ok && e2.Tuple == ssa.Value(call) && e2.Index == 1 {
						return "found"
					}
					return ""
				}, func(env map[string]bool) bool { return env["found"] }); msg != "" {
					why = "FUNC is answered although the lookup may have failed (" + msg + ")"
				}
			}
			// a name followed by '(' ...
			if pcImplies(r0[i].cond, isParen, func(env map[string]bool) bool { return env["paren"] }) == "" {
				hasParen := false
				for _, a := range r0[i].cond.atoms() {
					if isParen(a) != "" {
						hasParen = true
					}
				}
				if hasParen && (!isTok || !allowed[tok]) {
					why = "a name followed by '(' is answered with a token that is neither a function, a node type nor ERR"
				}
			}
		}
		if why == "" && nFunc == 0 {
			why = "no exit answers FUNC"
		}
	}
	r.Check(why == "", "R04.9", "CommonLex.LexName '(' branch", lfd.Pos(), "FUNC only for a symbol found by LookupXpathFunction; falls through to ERR",
		"a name followed by '(' can become a FUNC token without a successful table lookup, or the not-found path does not end in ERR: "+why)
	// LookupXpathFunction: returns (sym,true) only from the table or the user checker
	c04LookupTable(w, r, lookup)
	// leafref: only current
	ffd, fp := w.FuncDecl(w.Method("xpath/grammars/leafref", "leafrefLex", "LexName"))
	okCur := false
	ast.Inspect(ffd.Body, func(n ast.Node) bool {
		is, ok := n.(*ast.IfStmt)
		if !ok {
			return true
		}
		be, ok := ast.Unparen(is.Cond).(*ast.BinaryExpr)
		if !ok || be.Op != token.NEQ {
			return true
		}
		if v, ok := ConstStr(fp, be.Y); ok && v == "current" {
			for _, ret := range returnsIn(is.Body) {
				if x, ok := ConstInt(fp, ret.Results[0]); ok && x == errTok {
					okCur = true
				}
			}
		}
		return true
	})
	r.Check(okCur, "R04.9", "leafrefLex.LexName function filter", ffd.Pos(), "name != \"current\" ⇒ ERR", "the leafref lexer accepts functions other than current()")
}

func c04ErrRune(w *World, r *Report) {
	ct := w.Method("xpath", "CommonLex", "ConstructToken")
	f := w.SSAFunc(ct)
	if f == nil {
		panic(undecided{"CommonLex.ConstructToken"})
	}
	errTok := xutilsTok(w, "ERR")
	invalid := w.Field("xpath", "CommonLex", "invalidUTF8")
	// what appends a rune to the token: (*bytes.Buffer).WriteRune, called directly
	// or through a local closure that hands its rune parameter on
	writesRune := func(g *ssa.Function) int {
		for _, b := range g.Blocks {
			for _, in := range b.Instrs {
				if c, ok := in.(*ssa.Call); ok && c.Call.StaticCallee() != nil && c.Call.StaticCallee().String() == "(*bytes.Buffer).WriteRune" {
					for i, p := range g.Params {
						if c.Call.Args[1] == ssa.Value(p) {
							return i
						}
					}
				}
			}
		}
		return -1
	}
	sym := NewSym(w)
	n := 0
	for _, b := range f.Blocks {
		for _, in := range b.Instrs {
			c, ok := in.(*ssa.Call)
			if !ok {
				continue
			}
			var rn ssa.Value
			if sc := c.Call.StaticCallee(); sc != nil && sc.String() == "(*bytes.Buffer).WriteRune" {
				rn = c.Call.Args[1]
			} else if mc, ok := c.Call.Value.(*ssa.MakeClosure); ok {
				if i := writesRune(mc.Fn.(*ssa.Function)); i >= 0 && i < len(c.Call.Args) {
					rn = c.Call.Args[i]
				}
			} else if sc != nil && sc.Pkg == f.Pkg {
				if i := writesRune(sc); i >= 0 && i < len(c.Call.Args) {
					rn = c.Call.Args[i]
				}
			}
			if rn == nil {
				continue
			}
			n++
			var cond *pcF
			if l, inLoop := loopOf(f, b); inLoop {
				cond = sym.PathCond(l.Header, b, nil)
			} else {
				cond = sym.PathCond(f.Blocks[0], b, nil)
			}
			msg := pcImplies(cond, func(a *pcAtom) string {
				if bo, ok := a.v.(*ssa.BinOp); ok && a.subj != "" && a.set.equal(isetOf(errTok)) && (bo.X == rn || bo.Y == rn) {
					return "iserr"
				}
				if ld, ok := a.v.(*ssa.UnOp); ok && ld.Op == token.MUL {
					if fa, ok := ld.X.(*ssa.FieldAddr); ok && isFieldAddrOf(fa, invalid) {
						return "invalid"
					}
				}
				return ""
			}, func(env map[string]bool) bool { return !(env["iserr"] && env["invalid"]) })
			r.Check(msg == "", "R04.11", fmt.Sprintf("CommonLex.ConstructToken append #%d", n), c.Pos(), "the invalid-UTF-8 marker is excluded on every path to the append",
				"a rune from Next() is appended to the token without excluding the invalid-UTF-8 marker ("+msg+"): '\\xff' inside a literal would compile")
		}
	}
	if n == 0 {
		panic(undecided{"ConstructToken: nothing appends to the token"})
	}
	// WriteRune on a token buffer happens nowhere else in the lexers (ConstructToken's own helpers apart)
	for _, pkgKey := range []string{"xpath", "xpath/grammars/expr", "xpath/grammars/leafref", "xpath/grammars/path_eval"} {
		pk := w.Pkg(pkgKey)
		for _, fdl := range funcDecls(pk) {
			if isTestFile(w, fdl.Pos()) || pk.TypesInfo.Defs[fdl.Name] == ct {
				continue
			}
			if g, ok := pk.TypesInfo.Defs[fdl.Name].(*types.Func); ok {
				if sg := w.SSAFunc(g); sg != nil && w.OwnedBy(sg, f) {
					continue
				}
			}
			recv := ""
			if fdl.Recv != nil {
				recv = funcDeclName(fdl)
			}
			if !strings.Contains(recv, "Lex") {
				continue
			}
			ast.Inspect(fdl.Body, func(x ast.Node) bool {
				if ce, ok := x.(*ast.CallExpr); ok {
					if c := calleeOf(pk, ce); c != nil && (c.FullName() == "(*bytes.Buffer).WriteRune") {
						r.Fail("R04.11", "token buffer written in "+pkgKey+"."+funcDeclName(fdl), ce.Pos(), "runes are appended to a token outside ConstructToken, bypassing the invalid-UTF-8 test")
					}
				}
				return true
			})
		}
	}
}

// c04LookupTable (R04.9): LookupXpathFunction read as a decision table.  An
// exit answers "found" only with the table's own entry, exactly when the name
// is in the table and (the entry is not custom or custom functions are
// allowed); the checker's answer is handed on exactly when the name is not in
// the table and a checker was given; every other exit answers (nil, false).
func c04LookupTable(w *World, r *Report, lookup *types.Func) {
	f := w.SSAFunc(lookup)
	if f == nil || len(f.Params) != 3 {
		panic(undecided{"xpath.LookupXpathFunction"})
	}
	tbl := w.Var("xpath", "xpathFunctionTable")
	sym := NewSym(w)
	var look *ssa.Lookup
	for _, b := range f.Blocks {
		for _, in := range b.Instrs {
			if l, ok := in.(*ssa.Lookup); ok {
				if ld, ok := l.X.(*ssa.UnOp); ok {
					if g, ok := ld.X.(*ssa.Global); ok && g.Object() == types.Object(tbl) && l.Index == ssa.Value(f.Params[0]) {
						if look != nil {
							// a second read of the same entry is the same entry
							continue
						}
						look = l
					}
				}
			}
		}
	}
	why := ""
	if look == nil || !look.CommaOk {
		why = "the table is not consulted with the name (comma-ok read)"
	}
	fromLookup := func(v ssa.Value, idx int) bool {
		e, ok := v.(*ssa.Extract)
		if !ok || e.Index != idx {
			return false
		}
		l, ok := e.Tuple.(*ssa.Lookup)
		if !ok {
			return false
		}
		ld, ok := l.X.(*ssa.UnOp)
		if !ok {
			return false
		}
		g, ok := ld.X.(*ssa.Global)
		return ok && g.Object() == types.Object(tbl) && l.Index == ssa.Value(f.Params[0])
	}
	classify := func(a *pcAtom) string {
		if a.v != nil && fromLookup(a.v, 1) {
			return "found"
		}
		if fl, ok := a.v.(*ssa.Field); ok && fromLookup(fl.X, 0) {
			return "custom"
		}
		if ld, ok := a.v.(*ssa.UnOp); ok && ld.Op == token.MUL {
			if fa, ok := ld.X.(*ssa.FieldAddr); ok && fromLookup(fa.X, 0) {
				st := fa.X.Type().Underlying().(*types.Pointer).Elem().Underlying().(*types.Struct)
				if nm(st.Field(fa.Field)) == "custom" {
					return "custom"
				}
			}
		}
		if a.v == ssa.Value(f.Params[1]) {
			return "allowed"
		}
		if a.op == token.EQL && (a.x == ssa.Value(f.Params[2]) && isNilConst(a.y) || a.y == ssa.Value(f.Params[2]) && isNilConst(a.x)) {
			return "nochecker"
		}
		return ""
	}
	nHit, nChk := 0, 0
	if why == "" {
		r0, r1 := sym.retTable(f, 0), sym.retTable(f, 1)
		if len(r0) != len(r1) {
			why = "results not decided"
		}
		// exits of one kind may be several (a test split in two): their conditions are joined
		hit, chk := pcZ, pcZ
		for i := range r0 {
			if why != "" {
				break
			}
			v0, v1 := r0[i].val, r1[i].val
			k1, isConst := v1.(*ssa.Const)
			switch {
			case isConst && k1.Value != nil && k1.Value.ExactString() == "true":
				if !fromLookup(v0, 0) {
					why = "an exit answers found with something other than the table's entry"
					break
				}
				nHit++
				hit = pcOrF(hit, r0[i].cond)
			case isConst:
				if !isNilConst(v0) {
					why = "an exit answers not-found with a symbol"
				}
			default:
				// the checker's answer, handed on as it is
				e0, ok0 := v0.(*ssa.Extract)
				e1, ok1 := v1.(*ssa.Extract)
				var call *ssa.Call
				if ok0 && ok1 && e0.Tuple == e1.Tuple && e0.Index == 0 && e1.Index == 1 {
					call, _ = e0.Tuple.(*ssa.Call)
				}
				if call == nil || call.Call.Value != ssa.Value(f.Params[2]) || len(call.Call.Args) != 1 || call.Call.Args[0] != ssa.Value(f.Params[0]) {
					why = "an exit answers with something that is neither the table's entry, the checker's answer nor (nil,false)"
					break
				}
				nChk++
				chk = pcOrF(chk, r0[i].cond)
			}
		}
		if why == "" {
			if msg := pcCompare(hit, classify, func(env map[string]bool) bool { return env["found"] && (!env["custom"] || env["allowed"]) }); msg != "" {
				why = "the table's entry is not returned exactly when it exists and is visible: " + msg
			} else if msg := pcCompare(chk, classify, func(env map[string]bool) bool { return !env["found"] && !env["nochecker"] }); msg != "" {
				why = "the checker is not asked exactly for names that are not in the table: " + msg
			}
		}
		if why == "" && (nHit == 0 || nChk == 0) {
			why = fmt.Sprintf("%d exits return the table's entry, %d the checker's answer", nHit, nChk)
		}
	}
	r.Check(why == "", "R04.9", "LookupXpathFunction", f.Pos(), "found ⇔ in the table ∧ (¬custom ∨ allowed); else the checker, else (nil,false)", "the function lookup "+why)
}

// c04DecodedOnly (R04.22).
func c04DecodedOnly(w *World, r *Report) {
	for _, f := range []*ssa.Function{w.SSAFunc(w.Method("xpath", "CommonLex", "Next")), w.SSAFunc(w.Func("xpath", "next"))} {
		if f == nil {
			panic(undecided{"xpath.CommonLex.Next / xpath.next"})
		}
		sym := NewSym(w)
		why := ""
		n := 0
		for _, row := range sym.retTable(f, 0) {
			n++
			v := row.val
			switch x := v.(type) {
			case *ssa.Const:
				continue
			case *ssa.UnOp:
				// the pushed-back character
				if fa, ok := x.X.(*ssa.FieldAddr); ok && x.Op == token.MUL {
					st := fa.X.Type().Underlying().(*types.Pointer).Elem().Underlying().(*types.Struct)
					if nm(st.Field(fa.Field)) == "peek" {
						continue
					}
				}
			case *ssa.Convert:
				// a single byte taken as it is: fine when the path has established that it is ASCII
				if bt, ok := x.X.Type().Underlying().(*types.Basic); ok && bt.Kind() == types.Uint8 {
					vals, ok := pcValuesWhen(row.cond, sym.Key(x.X, nil))
					if ok && len(vals.minus(ISet{{0, 127}})) == 0 {
						continue
					}
					why = "a byte is returned undecoded although it may be in " + vals.minus(ISet{{0, 127}}).String()
					continue
				}
			case *ssa.Extract:
				if c, ok := x.Tuple.(*ssa.Call); ok && x.Index == 0 && c.Call.StaticCallee() != nil && c.Call.StaticCallee().String() == "unicode/utf8.DecodeRune" {
					// the invalid-encoding result is excluded on this path
					classify := func(a *pcAtom) string {
						bo, ok := a.v.(*ssa.BinOp)
						if !ok {
							return ""
						}
						for _, side := range []ssa.Value{bo.X, bo.Y} {
							if e, ok := side.(*ssa.Extract); ok && e.Tuple == ssa.Value(c) {
								if e.Index == 0 && a.subj != "" && a.set.equal(isetOf(0xFFFD)) {
									return "runeerror"
								}
								if e.Index == 1 && a.subj != "" && a.set.equal(isetOf(1)) {
									return "size1"
								}
							}
						}
						return ""
					}
					tested := map[string]bool{}
					for _, a := range row.cond.atoms() {
						tested[classify(a)] = true
					}
					if !tested["runeerror"] || !tested["size1"] {
						why = "the result of DecodeRune is returned without having been tested for the (RuneError, 1) of an invalid encoding"
					} else if msg := pcImplies(row.cond, classify, func(env map[string]bool) bool { return !(env["runeerror"] && env["size1"]) }); msg != "" {
						why = "the result of DecodeRune is returned although it may be the (RuneError, 1) of an invalid encoding: " + msg
					}
					continue
				}
			}
			why = "an exit returns `" + w.ExprNear(row.pos) + "`, which is neither the pushed-back character, a constant nor a decoded rune"
		}
		if n == 0 {
			why = "no exits"
		}
		r.Check(why == "", "R04.22", f.Name()+" hands out decoded characters only", f.Pos(), "peek | EOF | ERR | DecodeRune result with the invalid-encoding case excluded", why+": a byte sequence that is not UTF-8 (e.g. a lone 0x80 inside a literal) is accepted as part of an expression")
	}
}

// errExit: a place from which a function leaves with the ERR token as its
// first result: the returning block, or, when the result is chosen by control
// flow, the predecessor that chose ERR.
type errExit struct {
	blk *ssa.BasicBlock
	pos token.Pos
}

func errTokenExits(f *ssa.Function, errTok int64) []errExit {
	isErr := func(v ssa.Value) bool {
		k, ok := v.(*ssa.Const)
		if !ok || k.Value == nil || k.Value.Kind() != constant.Int {
			return false
		}
		iv, exact := constant.Int64Val(k.Value)
		return exact && iv == errTok
	}
	var out []errExit
	for _, b := range f.Blocks {
		ret, ok := b.Instrs[len(b.Instrs)-1].(*ssa.Return)
		if !ok || len(ret.Results) == 0 || b == f.Recover {
			continue
		}
		switch v := unspill(ret.Results[0]).(type) {
		case *ssa.Const:
			if isErr(v) {
				out = append(out, errExit{b, ret.Pos()})
			}
		case *ssa.Phi:
			if f.Name() == "Lex" {
				// the grammar lexers' Lex: the value-kind switch's default arm chooses ERR by
				// assignment — that arm has its own obligation below ("Lex default arm")
				continue
			}
			for i, e := range v.Edges {
				if isErr(e) {
					out = append(out, errExit{v.Block().Preds[i], ret.Pos()})
				}
			}
		}
	}
	return out
}

// errRecorder decides "every way to this block has recorded a lexer error":
// through a SetError call, a store to CommonLex.err, the true side of an
// `err != nil` test on that field, or a call of a module helper all of whose
// exits that are compatible with the way taken here have recorded one.
type errRecorder struct {
	sym      *Sym
	setErr   map[*types.Func]bool
	errField *types.Var
}

func (e *errRecorder) isErrLoad(v ssa.Value) bool {
	switch x := v.(type) {
	case *ssa.UnOp:
		if x.Op == token.MUL {
			if fa, ok := x.X.(*ssa.FieldAddr); ok {
				return fieldAddrVar(fa) == e.errField
			}
		}
	case *ssa.Call:
		if x.Call.IsInvoke() {
			return nm(x.Call.Method) == "GetError"
		}
		if g := x.Call.StaticCallee(); g != nil {
			return g.Name() == "GetError"
		}
	}
	return false
}

func (e *errRecorder) recordsDirectly(in ssa.Instruction) bool {
	switch x := in.(type) {
	case *ssa.Store:
		if fa, ok := x.Addr.(*ssa.FieldAddr); ok && fieldAddrVar(fa) == e.errField {
			if k, isK := x.Val.(*ssa.Const); !isK || !k.IsNil() {
				return true
			}
		}
	case ssa.CallInstruction:
		cc := x.Common()
		if cc.IsInvoke() {
			return e.setErr[cc.Method]
		}
		if g := cc.StaticCallee(); g != nil {
			if o, ok := g.Object().(*types.Func); ok {
				return e.setErr[o]
			}
		}
	}
	return false
}

func (e *errRecorder) recorded(f *ssa.Function, target *ssa.BasicBlock, depth int) bool {
	// the condition of reaching the target, to compare with what a helper
	// returned on its exits that recorded nothing
	var pc *pcF
	recordsFor := func(in ssa.Instruction) bool {
		if e.recordsDirectly(in) {
			return true
		}
		c, ok := in.(*ssa.Call)
		if !ok || depth >= 3 {
			return false
		}
		h := c.Call.StaticCallee()
		if h == nil || h.Blocks == nil || h == f || !strings.HasPrefix(pkgPathOf(h), modPath) {
			return false
		}
		some := false
		for _, hb := range h.Blocks {
			ret, isRet := hb.Instrs[len(hb.Instrs)-1].(*ssa.Return)
			if !isRet || hb == h.Recover {
				continue
			}
			if e.recorded(h, hb, depth+1) {
				some = true
				continue
			}
			// an exit that recorded nothing: the way to the target must exclude it
			if pc == nil {
				pc = e.sym.PathCond(f.Blocks[0], target, nil)
			}
			resultOf := func(v ssa.Value) (ssa.Value, bool) {
				if v == ssa.Value(c) && len(ret.Results) == 1 {
					return unspill(ret.Results[0]), true
				}
				if ex, isEx := v.(*ssa.Extract); isEx && ex.Tuple == ssa.Value(c) && ex.Index < len(ret.Results) {
					return unspill(ret.Results[ex.Index]), true
				}
				return nil, false
			}
			res, decided := pcEvalFree(pc, func(a *pcAtom) (bool, bool) {
				if a.x == nil {
					if rv, ok := resultOf(a.v); ok {
						if k, isK := rv.(*ssa.Const); isK && k.Value != nil && k.Value.Kind() == constant.Bool {
							return constant.BoolVal(k.Value), true
						}
					}
					return false, false
				}
				if rv, ok := resultOf(a.x); ok && (a.op == token.EQL || a.op == token.NEQ) {
					if yk, isK := a.y.(*ssa.Const); isK && yk.IsNil() {
						if k, isK := rv.(*ssa.Const); isK && k.IsNil() {
							return a.op == token.EQL, true
						}
					}
				}
				return false, false
			})
			if !decided || res {
				return false
			}
		}
		return some
	}
	// blocks reachable from the entry without having recorded anything
	reach := map[*ssa.BasicBlock]bool{}
	var walk func(b *ssa.BasicBlock) bool
	walk = func(b *ssa.BasicBlock) bool { // true: the target is reached unrecorded
		if reach[b] {
			return false
		}
		reach[b] = true
		for _, in := range b.Instrs {
			if recordsFor(in) {
				return false
			}
		}
		if b == target {
			return true
		}
		for i, s := range b.Succs {
			if iff, ok := b.Instrs[len(b.Instrs)-1].(*ssa.If); ok {
				if bo, ok := iff.Cond.(*ssa.BinOp); ok && (bo.Op == token.NEQ || bo.Op == token.EQL) && e.isErrLoad(bo.X) {
					if k, isK := bo.Y.(*ssa.Const); isK && k.IsNil() && ((bo.Op == token.NEQ && i == 0) || (bo.Op == token.EQL && i == 1)) {
						continue // an error is known to be recorded on this side
					}
				}
			}
			if walk(s) {
				return true
			}
		}
		return false
	}
	return !walk(f.Blocks[0])
}

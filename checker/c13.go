package main

import (
	"fmt"
	"go/ast"
	"go/constant"
	"go/token"
	"go/types"
	"regexp"
	"sort"
	"strings"

	"golang.org/x/tools/go/ssa"
)

func init() { register("C13", checkC13) }

// RFC 6020 §9: which restriction statements apply to which base type
var rfcRestrictions = map[string][]string{
	"SchemaBool": {}, "SchemaEmpty": {}, "SchemaEnumeration": {"enum"}, "SchemaIdentity": {},
	"SchemaInstanceId": {"require-instance"}, "SchemaNumber": {"range"}, "SchemaDecimal64": {"fraction-digits", "range"},
	"SchemaString": {"length", "pattern"}, "SchemaUnion": {"type"}, "SchemaBits": {"bit"}, "SchemaLeafRef": {"path"},
}

// operand roles in a comparator method: 0 = first parameter, 1 = second
func slicerOp(w *World, typ, meth string) (string, bool) {
	m := w.Method("schema", typ, meth)
	fd, p := w.FuncDecl(m)
	rets := returnsIn(fd.Body)
	if len(rets) != 1 {
		return "", false
	}
	e := ast.Unparen(rets[0].Results[0])
	if v := ConstOf(p, e); v != nil && v.Kind() == constant.Bool {
		return fmt.Sprint(constant.BoolVal(v)), true
	}
	role := func(x ast.Expr) string {
		x = ast.Unparen(x)
		plus := ""
		if be, ok := x.(*ast.BinaryExpr); ok && be.Op == token.ADD {
			if v, ok := ConstInt(p, be.Y); ok && v == 1 {
				plus = "+1"
				x = ast.Unparen(be.X)
			}
		}
		if ta, ok := x.(*ast.TypeAssertExpr); ok {
			for i := 0; i < 2; i++ {
				if objOfIdent(p, ta.X) == paramObj(p, fd, i) {
					return fmt.Sprintf("p%d%s", i, plus)
				}
			}
		}
		return "?"
	}
	be, ok := e.(*ast.BinaryExpr)
	if !ok {
		return "", false
	}
	return role(be.X) + " " + be.Op.String() + " " + role(be.Y), true
}

func checkC13(w *World, r *Report) {
	r.NotDecided = []string{
		"subset checking of arbitrary multi-part ranges on concrete values (value-level); only the comparisons, their operands and the error exits they guard are decided",
		"pattern semantics",
	}
	p := w.Pkg("compile")
	cerr := w.Method("compile", "Compiler", "error")

	r.Rule("R13.1", "applicable restriction kinds: validRestrictionsType equals RFC 6020 §9 per base type (vendor configd:syntax reviewed)", 11)
	r.guard("R13.1", func() {
		v := w.Var("compile", "validRestrictionsType")
		init, ip := w.VarInit(v)
		lv := evalLit(ip, init)
		names, _ := nodeTypeNames(w)
		// SchemaType constant names
		stNames := map[int64]string{}
		st := scopeLookup(ip.Types.Scope(), "SchemaType")
		for _, n := range ip.Types.Scope().Names() {
			if c, ok := scopeLookup(ip.Types.Scope(), n).(*types.Const); ok && st != nil && types.Identical(c.Type(), st.Type()) {
				x, _ := constant.Int64Val(c.Val())
				stNames[x] = n
			}
		}
		seen := map[string]bool{}
		for _, row := range lv.KVs {
			k, _ := constant.Int64Val(row.Key)
			sn := stNames[k]
			seen[sn] = true
			var got []string
			for _, cell := range row.Val.KVs {
				ck, _ := constant.Int64Val(cell.Key)
				if !isVendorKw(names[ck]) {
					got = append(got, names[ck])
				}
			}
			sort.Strings(got)
			want, ok := rfcRestrictions[sn]
			if !ok {
				r.Fail("R13.1", "validRestrictionsType["+sn+"]", row.Pos.Pos(), "unknown base type class")
				continue
			}
			r.Check(strings.Join(got, ",") == strings.Join(want, ","), "R13.1", "validRestrictionsType["+sn+"]", row.Pos.Pos(), "{"+strings.Join(got, ",")+"}",
				"restrictions allowed on "+sn+" are {"+strings.Join(got, ",")+"}; RFC 6020 §9 allows {"+strings.Join(want, ",")+"}")
		}
		for sn := range rfcRestrictions {
			if !seen[sn] {
				r.Fail("R13.1", "validRestrictionsType["+sn+"]", init.Pos(), "row missing: every restriction on this base type is rejected")
			}
		}
		// validateRestrictions rejects kinds not in the row
		vr := w.Method("compile", "Compiler", "validateRestrictions")
		fd, _ := w.FuncDecl(vr)
		ok := false
		if vf := w.SSAFunc(vr); vf != nil {
			sym := NewSym(w)
			sym.Expand = false
			gv := w.Var("compile", "validRestrictionsType")
			// within one round of the loop over the children: the error is raised
			// exactly for a restriction statement whose kind is not in the row
			for _, bl := range vf.Blocks {
				for _, in := range bl.Instrs {
					c, isC := in.(*ssa.Call)
					if !isC || c.Call.StaticCallee() == nil || c.Call.StaticCallee().Object() != types.Object(cerr) {
						continue
					}
					lp, inLoop := loopOf(vf, bl)
					if !inLoop {
						continue
					}
					pc := sym.PathCond(lp.Header, bl, nil)
					sawRow := false
					why := pcCompare(pc, func(a *pcAtom) string {
						if a.op == token.LSS && a.x != nil && isRangeIndex(a.x) {
							return "iter"
						}
						if tc, isT := a.v.(*ssa.Call); isT && a.x == nil && tc.Call.StaticCallee() != nil && tc.Call.StaticCallee().Name() == "IsTypeRestriction" {
							return "restriction"
						}
						if ex, isE := a.v.(*ssa.Extract); isE && ex.Index == 1 {
							if lk, isL := ex.Tuple.(*ssa.Lookup); isL && lk.CommaOk {
								// the row: validRestrictionsType[schemaType]
								if row, isRow := lk.X.(*ssa.Lookup); isRow {
									if ld, isLd := row.X.(*ssa.UnOp); isLd {
										if g, isG := ld.X.(*ssa.Global); isG && g.Object() == types.Object(gv) {
											sawRow = true
											return "inrow"
										}
									}
								}
							}
						}
						return ""
					}, func(env map[string]bool) bool { return env["iter"] && env["restriction"] && !env["inrow"] })
					ok = why == "" && sawRow
				}
			}
		}
		r.Check(ok, "R13.1", "validateRestrictions rejects", fd.Pos(), "kind ∉ row ⇒ error", "a restriction kind that does not apply to the base type is no longer refused")
	})

	r.Rule("R13.2", "default inheritance: the nearest definition wins — getDefault returns the own default when given, else the base type's; BuildBaseType hands the typedef's default inward", 2)
	r.guard("R13.2", func() {
		gd := w.Method("compile", "Compiler", "getDefault")
		fd, _ := w.FuncDecl(gd)
		ok := false
		if f := w.SSAFunc(gd); f != nil && len(f.Params) == 4 && len(ssaLoops(f)) == 0 {
			// exits returning (def, hasDef) are taken iff base == nil || hasDef; the others return base.Default()
			sym := NewSym(w)
			base, def, has := ssa.Value(f.Params[1]), ssa.Value(f.Params[2]), ssa.Value(f.Params[3])
			r0, r1 := sym.retTable(f, 0), sym.retTable(f, 1)
			own := pcZ
			good := len(r0) == len(r1) && len(r0) > 0
			inherits := false
			for i := range r0 {
				if !good {
					break
				}
				if r0[i].val == def && r1[i].val == has {
					own = pcOrF(own, r0[i].cond)
					continue
				}
				e0, ok0 := r0[i].val.(*ssa.Extract)
				e1, ok1 := r1[i].val.(*ssa.Extract)
				if ok0 && ok1 && e0.Tuple == e1.Tuple && e0.Index == 0 && e1.Index == 1 {
					if c, isC := e0.Tuple.(*ssa.Call); isC && c.Call.IsInvoke() && c.Call.Method.Name() == "Default" && stripIface(c.Call.Value) == base {
						inherits = true
						continue
					}
				}
				good = false
			}
			if good && inherits {
				ok = pcCompare(own, func(a *pcAtom) string {
					if a.v == has {
						return "has"
					}
					if a.op == token.EQL && a.x != nil && (stripIface(a.x) == base && isNilConst(a.y) || stripIface(a.y) == base && isNilConst(a.x)) {
						return "nobase"
					}
					return ""
				}, func(env map[string]bool) bool { return env["nobase"] || env["has"] }) == ""
			}
		}
		r.Check(ok, "R13.2", "getDefault", fd.Pos(), "hasDef (or no base) ⇒ own default; else base.Default()", "the default of a derived type is not 'own if given, else the base's'")
		bbt := w.Method("compile", "Compiler", "BuildBaseType")
		bfd, _ := w.FuncDecl(bbt)
		bt := w.Method("compile", "Compiler", "BuildType")
		okIn := false
		for _, ce := range allCallsTo(p, bfd.Body, bt) {
			// arguments 2 and 3 come from refType.Def() / refType.HasDef()
			from := func(e ast.Expr, meth string) bool {
				o := objOfIdent(p, e)
				found := false
				ast.Inspect(bfd.Body, func(x ast.Node) bool {
					if as, ok := x.(*ast.AssignStmt); ok && len(as.Lhs) == 1 && len(as.Rhs) == 1 && objOfIdent(p, as.Lhs[0]) == o {
						if c2, ok := as.Rhs[0].(*ast.CallExpr); ok {
							if se, ok := c2.Fun.(*ast.SelectorExpr); ok && se.Sel.Name == meth {
								found = true
							}
						}
					}
					return true
				})
				return found
			}
			if len(ce.Args) == 5 && from(ce.Args[2], "Def") && from(ce.Args[3], "HasDef") {
				okIn = true
			}
		}
		r.Check(okIn, "R13.2", "BuildBaseType passes the typedef's default inward", bfd.Pos(), "BuildType(…, typedef.Def(), typedef.HasDef(), …)", "the typedef's own default is not the one handed to the inner type: an outer definition would not override an inner one")
	})

	r.Rule("R13.3", "the four range-boundary comparators agree: LessThan is first < second, GreaterThan is first > second, Contiguous is lower+1 == higher for the integer kinds and constant false for decimal64", 12)
	r.guard("R13.3", func() {
		want := map[string]map[string]string{
			"LessThan": {"*": "p0 < p1"}, "GreaterThan": {"*": "p0 > p1"},
			"Contiguous": {"RbSlice": "p0+1 == p1", "UrbSlice": "p0+1 == p1", "LbSlice": "p0+1 == p1", "DrbSlice": "false"},
		}
		for _, typ := range []string{"RbSlice", "UrbSlice", "DrbSlice", "LbSlice"} {
			for _, meth := range []string{"LessThan", "GreaterThan", "Contiguous"} {
				got, ok := slicerOp(w, typ, meth)
				wv := want[meth]["*"]
				if wv == "" {
					wv = want[meth][typ]
				}
				r.Check(ok && got == wv, "R13.3", typ+"."+meth, token.NoPos, got, typ+"."+meth+" computes `"+got+"`, its siblings and the compiler's narrowing logic need `"+wv+"`")
			}
		}
	})

	r.Rule("R13.4", "narrowing comparisons: validateRangeBoundaries refuses end<start, non-ascending starts and touching/overlapping parts; createRangeBdry refuses a start below the base minimum and an end above the base maximum; getLength does the same on lengths and tests subset-of-a-part on the resolved bounds only", 8)
	r.guard("R13.4", func() { c13Narrowing(w, r) })

	r.Rule("R13.6", "every restriction along the chain gets its say: in package schema no verdict (error result) of a restriction check is overwritten or dropped before it has been examined — in particular each pattern of each chain level is tested before the next one runs", 1)
	r.guard("R13.6", func() { errRule(w, r, "R13.6", []string{"schema"}, nil) })

	r.guard("R13.4", func() { c13EveryPartChecked(w, r) })

	r.Rule("R13.7", "a derived type never shares restriction storage with another use of its base: the compiler keeps no table of built schema.Type values (each use of a typedef builds its own chain, which is what makes appending a level's patterns/ranges to the base's slices safe)", 1)
	r.guard("R13.7", func() {
		ct := scopeLookup(w.Pkg("compile").Types.Scope(), "Compiler")
		if ct == nil {
			panic(undecided{"compile.Compiler"})
		}
		st, ok := ct.Type().Underlying().(*types.Struct)
		if !ok {
			panic(undecided{"compile.Compiler is not a struct"})
		}
		var mentions func(t types.Type, d int) bool
		mentions = func(t types.Type, d int) bool {
			if d > 6 {
				return false
			}
			switch x := t.(type) {
			case *types.Named:
				if x.Obj().Pkg() != nil && nm(x.Obj().Pkg()) == "schema" && nm(x.Obj()) == "Type" {
					return true
				}
				return false
			case *types.Map:
				return mentions(x.Elem(), d+1) || mentions(x.Key(), d+1)
			case *types.Slice:
				return mentions(x.Elem(), d+1)
			case *types.Array:
				return mentions(x.Elem(), d+1)
			case *types.Pointer:
				return mentions(x.Elem(), d+1)
			}
			return false
		}
		bad := ""
		for i := 0; i < st.NumFields(); i++ {
			if mentions(st.Field(i).Type(), 0) {
				bad = st.Field(i).Name()
			}
		}
		r.Check(bad == "", "R13.7", "Compiler holds no built types", ct.Pos(), fmt.Sprintf("%d fields, none stores schema.Type values", st.NumFields()), "Compiler."+bad+" keeps built schema.Type values: a type shared between two derivations has its pattern/range slices appended to by both (append into spare capacity of the shared backing array), so one derived type ends up enforcing the other's restriction")
	})

	r.Rule("R13.8", "every restriction written in a type statement is tested against the kinds that apply to the base type, wherever it stands among the substatements: validateRestrictions' loop over the children runs to the end (no early break) ", 1)
	r.guard("R13.8", func() {
		f := w.SSAFunc(w.Method("compile", "Compiler", "validateRestrictions"))
		if f == nil {
			panic(undecided{"Compiler.validateRestrictions"})
		}
		found, ok, why := loopOnlyLeavesAtHead(f, func(c ssa.CallInstruction) bool {
			return c.Common().IsInvoke() && nm(c.Common().Method) == "IsTypeRestriction" || (c.Common().StaticCallee() != nil && nm(c.Common().StaticCallee()) == "IsTypeRestriction")
		})
		if !found {
			panic(undecided{"validateRestrictions: loop over the substatements"})
		}
		r.Check(ok, "R13.8", "validateRestrictions examines every substatement", f.Pos(), "the loop is left only when the children are exhausted", why+": a restriction that stands after the statement at which the loop stops (e.g. after an extension statement) is never tested — `range` on a string compiles and is ignored")
	})

	r.Rule("R13.9", "a derived decimal64 keeps the fraction digits of its base: the precision handed to the final NewDecimal64 in makeDecimal64 is base.Fd() (for a builtin decimal64 the base is the one just built from the statement's fraction-digits)", 1)
	r.guard("R13.9", func() {
		f := w.SSAFunc(w.Method("compile", "Compiler", "makeDecimal64"))
		if f == nil {
			panic(undecided{"Compiler.makeDecimal64"})
		}
		// the NewDecimal64 call whose result is returned
		okFd := false
		var pos token.Pos = f.Pos()
		for _, b := range f.Blocks {
			ret, isRet := b.Instrs[len(b.Instrs)-1].(*ssa.Return)
			if !isRet || len(ret.Results) != 1 {
				continue
			}
			v := ret.Results[0]
			for {
				if mi, ok := v.(*ssa.MakeInterface); ok {
					v = mi.X
					continue
				}
				if ci, ok := v.(*ssa.ChangeInterface); ok {
					v = ci.X
					continue
				}
				break
			}
			call, ok := v.(*ssa.Call)
			if !ok || call.Call.StaticCallee() == nil || nm(call.Call.StaticCallee()) != "NewDecimal64" {
				continue
			}
			pos = call.Pos()
			if fd, ok := call.Call.Args[1].(*ssa.Call); ok && fd.Call.IsInvoke() && nm(fd.Call.Method) == "Fd" {
				okFd = true
			}
		}
		r.Check(okFd, "R13.9", "makeDecimal64: precision of the built type", pos, "base.Fd()", "the fraction digits of the built type are not taken from the base on every path: a derived type that restates fraction-digits gets a different precision than its base while inheriting the base's ranges, and accepts values its base rejects")
	})

	r.Rule("R13.10", "numbers written in YANG text are decimal: every strconv.ParseInt/ParseUint in parse, schema and compile gets base 10, either as a constant or through a parameter that every caller (also through the RangeBoundarySlicer interface) fills with the constant 10", 10)
	r.guard("R13.10", func() { c13Base10(w, r) })

	r.Rule("R13.11", "a default is judged against the whole effective range: the Validate that validateDefault relies on asks every part of a multi-part range (same analysis as R16.12) — a default equal to the upper end of a non-last part must not be refused", 3)
	r.guard("R13.11", func() { partsScan(w, r, "R13.11") })

	r.Rule("R13.12", "each part of a range or length argument is read on its own: in the loops of the argument parsers (the Parse methods of parse/arg.go) no local that lives outside the loop is read in an iteration before that iteration has set it as a whole — a min/max flag or a bound left over from one part must not leak into the next ('min..5 | 9..12')", 2)
	r.guard("R13.12", func() {
		sp := w.SSAPkg("parse")
		n := 0
		for _, f := range allFuncs(sp) {
			if f.Parent() != nil || isTestFile(w, f.Pos()) || nm(f) != "Parse" || f.Signature.Recv() == nil || !strings.HasSuffix(w.Fset.Position(f.Pos()).Filename, "/arg.go") {
				continue
			}
			for _, l := range ssaLoops(f) {
				n++
				body := l.body()
				bad := ""
				for _, b := range f.Blocks {
					for _, in := range b.Instrs {
						cell, ok := in.(*ssa.Alloc)
						if !ok || cell.Heap || body[b] {
							continue
						}
						// reads and whole-cell writes inside the loop
						var reads []ssa.Instruction
						var resets []ssa.Instruction
						partial := false
						var visit func(addr ssa.Value, whole bool)
						visit = func(addr ssa.Value, whole bool) {
							refs := addr.Referrers()
							if refs == nil {
								return
							}
							for _, ref := range *refs {
								if !body[ref.Block()] {
									continue
								}
								switch x := ref.(type) {
								case *ssa.Store:
									if x.Addr == addr {
										if whole {
											resets = append(resets, x)
										} else {
											partial = true
										}
									}
								case *ssa.UnOp:
									reads = append(reads, x)
								case *ssa.FieldAddr:
									visit(x, false)
								case *ssa.IndexAddr:
									visit(x, false)
								}
							}
						}
						visit(cell, true)
						if len(reads) == 0 || (len(resets) == 0 && !partial) {
							continue
						}
						for _, rd := range reads {
							covered := false
							for _, rs := range resets {
								if rs.Block() == rd.Block() {
									for _, x := range rd.Block().Instrs {
										if x == rs {
											covered = true
											break
										}
										if x == rd {
											break
										}
									}
								} else if rs.Block().Dominates(rd.Block()) {
									covered = true
								}
							}
							if !covered {
								bad = cell.Comment
							}
						}
					}
				}
				r.Check(bad == "", "R13.12", fmt.Sprintf("%s loop #%d reads each part afresh", funcKey(f), n), l.Header.Instrs[0].Pos(), "no local from outside the loop is read before the iteration has set it",
					"the local '"+bad+"' lives outside the loop and an iteration reads it (or a part of it) without having set it as a whole: what one part of 'a..b | c..d' left in it (a min/max flag, a bound) leaks into the next part")
			}
		}
		if n == 0 {
			panic(undecided{"no loops in the argument parsers"})
		}
	})

	r.Rule("R13.5", "a default that the final type rejects is refused: validateDefault is called unconditionally on every path that returns a type from makeBuiltinType and refineType, and it validates the default with the type's own Validate", 3)
	r.guard("R13.5", func() {
		vd := w.Method("compile", "Compiler", "validateDefault")
		for _, fn := range []string{"makeBuiltinType", "refineType"} {
			f := w.Method("compile", "Compiler", fn)
			fd, _ := w.FuncDecl(f)
			// a top-level (unconditional) call statement before the final return
			top := false
			for _, s := range fd.Body.List {
				if es, ok := s.(*ast.ExprStmt); ok {
					if ce, ok := es.X.(*ast.CallExpr); ok && calleeOf(p, ce) == vd {
						top = true
					}
				}
			}
			nRet := 0
			for _, ret := range returnsIn(fd.Body) {
				if len(ret.Results) == 1 && !isNilIdent(p, ret.Results[0]) {
					nRet++
				}
			}
			r.Check(top && nRet == 1, "R13.5", fn+" validates the default", fd.Pos(), "unconditional validateDefault before the single return", "the default is validated only on some paths (or not at all): a typedef default that a later pattern/range/length rejects is accepted and the leaf reports a default its own type refuses")
		}
		vfd, _ := w.FuncDecl(vd)
		ok := false
		ast.Inspect(vfd.Body, func(x ast.Node) bool {
			if ce, isC := x.(*ast.CallExpr); isC {
				if se, isS := ce.Fun.(*ast.SelectorExpr); isS && se.Sel.Name == "Validate" && objOfIdent(p, se.X) == paramObj(p, vfd, 1) {
					ok = len(allCallsTo(p, vfd.Body, cerr)) == 1
				}
			}
			return true
		})
		r.Check(ok, "R13.5", "validateDefault uses the type's Validate", vfd.Pos(), "t.Validate(default) ≠ nil ⇒ error", "the default is not checked with the type's own validator")
	})
}

var c13ParseBaseRe = regexp.MustCompile(`\.(Start|End),\d+,64\)`)

// c13Base10 (R13.10): the base argument of every integer parse of YANG text.
func c13Base10(w *World, r *Report) {
	isTen := func(p *packagesPackage, e ast.Expr) bool {
		tv, ok := p.TypesInfo.Types[e]
		if !ok || tv.Value == nil {
			return false
		}
		v, ok := intConst(tv.Value)
		return ok && v == 10
	}
	type fwd struct {
		fn  *types.Func
		idx int
		pos token.Pos
	}
	var fwds []fwd
	pkgs := []string{"parse", "schema", "compile"}
	for _, key := range pkgs {
		p := w.Pkg(key)
		for _, fd := range funcDecls(p) {
			if isTestFile(w, fd.Pos()) || fd.Body == nil {
				continue
			}
			for _, ce := range callsIn(p, fd.Body) {
				c := calleeOf(p, ce)
				if c == nil || c.Pkg() == nil || c.Pkg().Path() != "strconv" || (nm(c) != "ParseInt" && nm(c) != "ParseUint") || len(ce.Args) != 3 {
					continue
				}
				inst := key + "." + funcDeclName(fd) + ": " + c.Name() + "(" + types.ExprString(ce.Args[0]) + ")"
				if isTen(p, ce.Args[1]) {
					r.Check(true, "R13.10", inst, ce.Pos(), "base 10", "")
					continue
				}
				// a parameter of the enclosing function?
				idx := -1
				if o := objOfIdent(p, ce.Args[1]); o != nil {
					for i := 0; ; i++ {
						po := paramObj(p, fd, i)
						if po == nil {
							break
						}
						if po == o {
							idx = i
						}
					}
				}
				if idx < 0 {
					r.Check(false, "R13.10", inst, ce.Pos(), "base "+types.ExprString(ce.Args[1]), "an integer of YANG text is parsed with base "+types.ExprString(ce.Args[1])+": with base 0 `range \"010..020\"` means 8..16 and 0x10, 0b1, 1_0 are accepted")
					continue
				}
				fn, _ := p.TypesInfo.Defs[fd.Name].(*types.Func)
				fwds = append(fwds, fwd{fn, idx, ce.Pos()})
			}
		}
	}
	for _, f := range fwds {
		sig := f.fn.Type().(*types.Signature)
		n := 0
		bad := ""
		var badPos token.Pos
		for _, key := range pkgs {
			p := w.Pkg(key)
			for _, fd := range funcDecls(p) {
				if isTestFile(w, fd.Pos()) || fd.Body == nil {
					continue
				}
				for _, ce := range callsIn(p, fd.Body) {
					c := calleeOf(p, ce)
					if c == nil || c.Name() != f.fn.Name() || len(ce.Args) <= f.idx {
						continue
					}
					same := c == f.fn
					if !same && sig.Recv() != nil {
						// an interface method the receiver's type satisfies
						if csig, ok := c.Type().(*types.Signature); ok && csig.Recv() != nil {
							if it, ok := csig.Recv().Type().Underlying().(*types.Interface); ok {
								same = types.Implements(sig.Recv().Type(), it) || types.Implements(types.NewPointer(sig.Recv().Type()), it)
							}
						}
					}
					if !same {
						continue
					}
					n++
					if !isTen(p, ce.Args[f.idx]) {
						bad = key + "." + funcDeclName(fd) + " passes base " + types.ExprString(ce.Args[f.idx])
						badPos = ce.Pos()
					}
				}
			}
		}
		name := f.fn.Name()
		if sig.Recv() != nil {
			name = types.TypeString(sig.Recv().Type(), func(*types.Package) string { return "" }) + "." + name
		}
		pos := f.pos
		if bad != "" {
			pos = badPos
		}
		r.Check(n > 0 && bad == "", "R13.10", name+": base parameter", pos, fmt.Sprintf("%d callers, all pass 10", n), bad+": range and length boundaries are then read with Go's literal prefixes — `range \"010..020\"` compiles as 8..16 and 0x10/0b1/1_0 are accepted")
	}
}

func c13Narrowing(w *World, r *Report) {
	p := w.Pkg("compile")
	cerr := w.Method("compile", "Compiler", "error")
	// guardedErrors: for each `if COND { … c.error … }` in fd return a normalised description of COND
	describe := func(fd *ast.FuncDecl) []string {
		var out []string
		ast.Inspect(fd.Body, func(x ast.Node) bool {
			is, ok := x.(*ast.IfStmt)
			if !ok {
				return true
			}
			direct := false
			for _, s := range is.Body.List {
				if es, ok := s.(*ast.ExprStmt); ok {
					if ce, ok := es.X.(*ast.CallExpr); ok && calleeOf(p, ce) == cerr {
						direct = true
					}
				}
			}
			if !direct {
				return true
			}
			out = append(out, normCondIn(p, fd, is.Cond))
			return true
		})
		sort.Strings(out)
		return out
	}
	vrb := w.Method("compile", "Compiler", "validateRangeBoundaries")
	vfd, _ := w.FuncDecl(vrb)
	_ = describe
	got := c13BoundaryTests(w, w.SSAFunc(vrb), cerr)
	want := []string{
		"!LessThan(GetEnd(i-1),GetStart(i))",
		"GreaterThan(GetStart(i-1),GetStart(i))",
		"LessThan(GetEnd(0),GetStart(0))",
		"LessThan(GetEnd(i),GetStart(i))",
	}
	sort.Strings(want)
	r.Check(strings.Join(got, " ; ") == strings.Join(want, " ; "), "R13.4", "validateRangeBoundaries tests", vfd.Pos(), strings.Join(got, " ; "),
		"rejecting comparisons are ["+strings.Join(got, " ; ")+"], expected ["+strings.Join(want, " ; ")+"] (end before start; starts not ascending; parts touching or overlapping)")
	// createRangeBdry: start < base_min, end > base_max, start < rangeMin of the sub-range scan
	cfd, _ := w.FuncDecl(w.Method("compile", "Compiler", "createRangeBdry"))
	c13RangeNarrowing(w, r, cfd.Pos())
	// getLength
	gl := w.Method("compile", "Compiler", "getLength")
	gfd, _ := w.FuncDecl(gl)
	c13LengthNarrowing(w, r, gfd.Pos())
}

// normCond renders a condition independent of local variable names: method
// receivers and package qualifiers are dropped, and every local variable is
// replaced by its provenance — the (sorted) set of expressions assigned to it
// in the function, or, for a range variable or a variable without a simple
// definition, its type.
func normCond(p *packagesPackage, e ast.Expr) string {
	return normCondIn(p, nil, e)
}

func normCondIn(p *packagesPackage, fd *ast.FuncDecl, e ast.Expr) string {
	prov := map[types.Object]string{}
	var f func(e ast.Expr, depth int) string
	local := func(id *ast.Ident, depth int) string {
		o := p.TypesInfo.Uses[id]
		if o == nil {
			o = p.TypesInfo.Defs[id]
		}
		v, ok := o.(*types.Var)
		if !ok || fd == nil || v.IsField() || v.Parent() == nil || v.Parent() == v.Pkg().Scope() {
			return id.Name
		}
		if s, ok := prov[o]; ok {
			return s
		}
		prov[o] = "$" + short(v.Type().String())
		if depth > 2 {
			return prov[o]
		}
		// parameters keep their position
		if fd.Type.Params != nil {
			k := 0
			for _, fl := range fd.Type.Params.List {
				for _, n := range fl.Names {
					if p.TypesInfo.Defs[n] == o {
						prov[o] = fmt.Sprintf("$param%d", k)
						return prov[o]
					}
					k++
				}
			}
		}
		set := map[string]bool{}
		ast.Inspect(fd.Body, func(x ast.Node) bool {
			switch as := x.(type) {
			case *ast.AssignStmt:
				if len(as.Lhs) == len(as.Rhs) {
					for i, l := range as.Lhs {
						if objOfIdent(p, l) == o {
							set[f(as.Rhs[i], depth+1)] = true
						}
					}
				} else if len(as.Rhs) == 1 {
					for i, l := range as.Lhs {
						if objOfIdent(p, l) == o {
							set[fmt.Sprintf("%s#%d", f(as.Rhs[0], depth+1), i)] = true
						}
					}
				}
			case *ast.RangeStmt:
				if objOfIdent(p, as.Value) == o {
					set["elem("+short(v.Type().String())+")"] = true
				}
				if objOfIdent(p, as.Key) == o {
					set["index"] = true
				}
			}
			return true
		})
		if len(set) > 0 {
			var ks []string
			for k := range set {
				ks = append(ks, k)
			}
			sort.Strings(ks)
			prov[o] = "<" + strings.Join(ks, "|") + ">"
			// a named boolean with a single definition (`reversed := a < b; if reversed {…}`) is transparent
			if bt, ok := v.Type().Underlying().(*types.Basic); ok && bt.Kind() == types.Bool && len(ks) == 1 {
				prov[o] = ks[0]
			}
		}
		return prov[o]
	}
	f = func(e ast.Expr, depth int) string {
		e = ast.Unparen(e)
		switch x := e.(type) {
		case *ast.Ident:
			return local(x, depth)
		case *ast.UnaryExpr:
			return x.Op.String() + f(x.X, depth)
		case *ast.BinaryExpr:
			return f(x.X, depth) + x.Op.String() + f(x.Y, depth)
		case *ast.SelectorExpr:
			if _, ok := p.TypesInfo.Selections[x]; ok {
				return f(x.X, depth) + "." + x.Sel.Name
			}
			return x.Sel.Name
		case *ast.IndexExpr:
			return f(x.X, depth) + "[" + f(x.Index, depth) + "]"
		case *ast.CallExpr:
			name := ""
			switch fn := x.Fun.(type) {
			case *ast.SelectorExpr:
				name = fn.Sel.Name
			case *ast.Ident:
				name = fn.Name
			}
			var as []string
			for _, a := range x.Args {
				as = append(as, f(a, depth))
			}
			return name + "(" + strings.Join(as, ",") + ")"
		default:
			return strings.ReplaceAll(types.ExprString(e), " ", "")
		}
	}
	return f(e, 0)
}

// c13RangeNarrowing (R13.4, createRangeBdry): three comparisons of the range
// interface guard an error exit, identified by where their operands come from
// rather than by how the locals are called or where the test stands (the
// function itself or a helper only it uses):
//
//	LessThan(parsed start, base minimum)            = GetStart(0)
//	GreaterThan(parsed end, base maximum)           = GetEnd(Len()-1)
//	LessThan(start, minimum of the current sub-range run) = GetStart(index)
func c13RangeNarrowing(w *World, r *Report, pos token.Pos) {
	root := w.SSAFunc(w.Method("compile", "Compiler", "createRangeBdry"))
	cerr := w.Method("compile", "Compiler", "error")
	if root == nil {
		panic(undecided{"Compiler.createRangeBdry"})
	}
	sp := w.SSAPkg("compile")
	var cone []*ssa.Function
	for _, g := range allFuncs(sp) {
		if !isTestFile(w, g.Pos()) && w.OwnedBy(g, root) {
			cone = append(cone, g)
		}
	}
	// where a value comes from
	sources := func(v ssa.Value) map[string]bool {
		out := map[string]bool{}
		seen := map[ssa.Value]bool{}
		var walk func(v ssa.Value, d int)
		walk = func(v ssa.Value, d int) {
			if v == nil || seen[v] || d > 30 {
				return
			}
			seen[v] = true
			switch x := v.(type) {
			case *ssa.Call:
				cc := x.Common()
				name := ""
				if cc.IsInvoke() {
					name = cc.Method.Name()
				} else if f := cc.StaticCallee(); f != nil {
					name = f.Name()
				}
				switch name {
				case "Parse":
					// which field of the parsed boundary
					if len(cc.Args) > 0 {
						if fl, ok := cc.Args[0].(*ssa.Field); ok {
							st := fl.X.Type().Underlying().(*types.Struct)
							out["Parse(."+st.Field(fl.Field).Name()+")"] = true
							return
						}
						if ld, ok := cc.Args[0].(*ssa.UnOp); ok {
							if fa, ok := ld.X.(*ssa.FieldAddr); ok {
								st := fa.X.Type().Underlying().(*types.Pointer).Elem().Underlying().(*types.Struct)
								out["Parse(."+st.Field(fa.Field).Name()+")"] = true
								return
							}
						}
					}
					out["Parse(?)"] = true
					return
				case "GetStart", "GetEnd":
					arg := "i"
					if len(cc.Args) > 0 {
						if k, ok := intConstOf(cc.Args[0]); ok {
							arg = fmt.Sprint(k)
						} else if bo, ok := cc.Args[0].(*ssa.BinOp); ok && bo.Op == token.SUB {
							if one, ok := intConstOf(bo.Y); ok && one == 1 {
								if lc, ok := bo.X.(*ssa.Call); ok && lc.Call.IsInvoke() && nm(lc.Call.Method) == "Len" {
									arg = "Len()-1"
								}
							}
						}
					}
					out[name+"("+arg+")"] = true
					return
				}
				// some other call: what it was given
				for _, a := range cc.Args {
					walk(a, d+1)
				}
				return
			case *ssa.Parameter:
				fn := x.Parent()
				if fn == root {
					return
				}
				idx := -1
				for i, p := range fn.Params {
					if p == x {
						idx = i
					}
				}
				for _, g := range cone {
					for _, b := range g.Blocks {
						for _, in := range b.Instrs {
							if c, ok := in.(ssa.CallInstruction); ok && c.Common().StaticCallee() == fn && idx >= 0 && idx < len(c.Common().Args) {
								walk(c.Common().Args[idx], d+1)
							}
						}
					}
				}
				return
			case *ssa.Alloc:
				for _, ref := range *x.Referrers() {
					if st, ok := ref.(*ssa.Store); ok && st.Addr == ssa.Value(x) {
						walk(st.Val, d+1)
					}
				}
				return
			case *ssa.Const, *ssa.Global, *ssa.Function, *ssa.FreeVar:
				return
			}
			if in, ok := v.(ssa.Instruction); ok {
				for _, op := range in.Operands(nil) {
					if *op != nil {
						walk(*op, d+1)
					}
				}
			}
		}
		walk(v, 0)
		return out
	}
	type test struct{ meth, left, right string }
	found := map[test]bool{}
	for _, g := range cone {
		for _, b := range g.Blocks {
			for _, in := range b.Instrs {
				c, ok := in.(*ssa.Call)
				if !ok || !c.Call.IsInvoke() || (nm(c.Call.Method) != "LessThan" && nm(c.Call.Method) != "GreaterThan") || len(c.Call.Args) != 2 {
					continue
				}
				// does the true outcome lead to an error exit?
				guards := false
				for _, ref := range *c.Referrers() {
					var ifi *ssa.If
					neg := false
					switch x := ref.(type) {
					case *ssa.If:
						ifi = x
					case *ssa.UnOp:
						if x.Op == token.NOT {
							for _, r2 := range *x.Referrers() {
								if y, ok := r2.(*ssa.If); ok {
									ifi, neg = y, true
								}
							}
						}
					}
					if ifi == nil {
						continue
					}
					succ := ifi.Block().Succs[0]
					if neg {
						succ = ifi.Block().Succs[1]
					}
					if len(succ.Preds) != 1 {
						continue
					}
					for _, eb := range g.Blocks {
						if !succ.Dominates(eb) {
							continue
						}
						for _, in2 := range eb.Instrs {
							if ec, ok := in2.(ssa.CallInstruction); ok && ec.Common().StaticCallee() != nil && ec.Common().StaticCallee().Object() == types.Object(cerr) {
								guards = true
							}
						}
					}
				}
				if !guards {
					continue
				}
				ls, rs := sources(c.Call.Args[0]), sources(c.Call.Args[1])
				for l := range ls {
					for rr := range rs {
						found[test{c.Call.Method.Name(), l, rr}] = true
					}
				}
			}
		}
	}
	for _, t := range []struct {
		t    test
		what string
	}{
		{test{"LessThan", "Parse(.Start)", "GetStart(0)"}, "LessThan(parsed start, base minimum)"},
		{test{"GreaterThan", "Parse(.End)", "GetEnd(Len()-1)"}, "GreaterThan(parsed end, base maximum)"},
		{test{"LessThan", "Parse(.Start)", "GetStart(i)"}, "LessThan(start, minimum of the current run of base sub-ranges)"},
	} {
		r.Check(found[t.t], "R13.4", "createRangeBdry: "+t.what, pos, "⇒ error", "the narrowing test "+t.what+" no longer guards an error exit: a derived range that is not a subset of its base is accepted")
	}
}

// c13LengthNarrowing (R13.4, getLength): the same three narrowing tests as for
// ranges, on integers, identified by where the operands come from:
//
//	parsed start  <  base minimum  (first base part's Start)            ⇒ error
//	parsed end    >  base maximum  (last base part's End)               ⇒ error
//	resolved start <  start of the current run of base parts            ⇒ error
//
// and inside the scan over the base parts every comparison against a base
// part uses the *resolved* bound (the parsed one is 0 for min/max).
func c13LengthNarrowing(w *World, r *Report, pos token.Pos) {
	root := w.SSAFunc(w.Method("compile", "Compiler", "getLength"))
	cerr := w.Method("compile", "Compiler", "error")
	if root == nil {
		panic(undecided{"Compiler.getLength"})
	}
	var cone []*ssa.Function
	for _, g := range allFuncs(w.SSAPkg("compile")) {
		if !isTestFile(w, g.Pos()) && w.OwnedBy(g, root) {
			cone = append(cone, g)
		}
	}
	typeName := func(t types.Type) string {
		if p, ok := t.(*types.Pointer); ok {
			t = p.Elem()
		}
		if n, ok := t.(*types.Named); ok && n.Obj().Pkg() != nil {
			return n.Obj().Pkg().Name() + "." + n.Obj().Name()
		}
		return ""
	}
	// source tags of a value
	var sources func(v ssa.Value) map[string]bool
	sources = func(v ssa.Value) map[string]bool {
		out := map[string]bool{}
		seen := map[ssa.Value]bool{}
		var fieldOf func(base ssa.Value, name string, d int)
		var walk func(v ssa.Value, d int)
		// base is the struct (or its address) a Start/End field is read from
		fieldOf = func(base ssa.Value, name string, d int) {
			switch x := base.(type) {
			case *ssa.Alloc:
				// a local boundary: what was stored into that field
				for _, ref := range *x.Referrers() {
					if fa, ok := ref.(*ssa.FieldAddr); ok {
						st := fa.X.Type().Underlying().(*types.Pointer).Elem().Underlying().(*types.Struct)
						if st.Field(fa.Field).Name() != name {
							continue
						}
						for _, r2 := range *fa.Referrers() {
							if s2, ok := r2.(*ssa.Store); ok && s2.Addr == ssa.Value(fa) {
								walk(s2.Val, d+1)
							}
						}
					}
					if s2, ok := ref.(*ssa.Store); ok && s2.Addr == ssa.Value(x) {
						fieldOf(s2.Val, name, d+1)
					}
				}
				return
			case *ssa.UnOp:
				if x.Op == token.MUL {
					fieldOf(x.X, name, d+1)
					return
				}
			case *ssa.IndexAddr:
				tn := typeName(x.Type().Underlying().(*types.Pointer).Elem())
				idx := "i"
				if k, ok := intConstOf(x.Index); ok {
					idx = fmt.Sprint(k)
				} else if bo, ok := x.Index.(*ssa.BinOp); ok && bo.Op == token.SUB {
					if one, ok := intConstOf(bo.Y); ok && one == 1 {
						if _, isLen := isLenCall(bo.X); isLen {
							idx = "last"
						}
					}
				}
				out[tn+"["+idx+"]."+name] = true
				return
			case *ssa.Index:
				out[typeName(x.Type())+"[i]."+name] = true
				return
			case *ssa.Phi:
				for _, e := range x.Edges {
					fieldOf(e, name, d+1)
				}
				return
			case *ssa.Parameter:
				// a boundary handed to a helper of the cone: the boundary the caller passes
				if fn := x.Parent(); fn != root && d < 30 {
					followed := false
					for i, prm := range fn.Params {
						if prm != x {
							continue
						}
						for _, g := range cone {
							for _, b := range g.Blocks {
								for _, in := range b.Instrs {
									if c, ok := in.(ssa.CallInstruction); ok && c.Common().StaticCallee() == fn && i < len(c.Common().Args) {
										followed = true
										fieldOf(c.Common().Args[i], name, d+1)
									}
								}
							}
						}
					}
					if followed {
						return
					}
				}
			}
			out[typeName(base.Type())+"."+name] = true
		}
		walk = func(v ssa.Value, d int) {
			if v == nil || seen[v] || d > 40 {
				return
			}
			seen[v] = true
			switch x := v.(type) {
			case *ssa.Field:
				st := x.X.Type().Underlying().(*types.Struct)
				n := st.Field(x.Field).Name()
				if n == "Start" || n == "End" {
					fieldOf(x.X, n, d)
					return
				}
			case *ssa.UnOp:
				if fa, ok := x.X.(*ssa.FieldAddr); ok && x.Op == token.MUL {
					st := fa.X.Type().Underlying().(*types.Pointer).Elem().Underlying().(*types.Struct)
					n := st.Field(fa.Field).Name()
					if n == "Start" || n == "End" {
						fieldOf(fa.X, n, d)
						return
					}
				}
			case *ssa.Parameter:
				fn := x.Parent()
				if fn == root {
					return
				}
				for i, p := range fn.Params {
					if p != x {
						continue
					}
					for _, g := range cone {
						for _, b := range g.Blocks {
							for _, in := range b.Instrs {
								if c, ok := in.(ssa.CallInstruction); ok && c.Common().StaticCallee() == fn && i < len(c.Common().Args) {
									walk(c.Common().Args[i], d+1)
								}
							}
						}
					}
				}
				return
			case *ssa.Const, *ssa.Global, *ssa.Function, *ssa.FreeVar:
				return
			}
			if in, ok := v.(ssa.Instruction); ok {
				for _, op := range in.Operands(nil) {
					if *op != nil {
						walk(*op, d+1)
					}
				}
			}
		}
		walk(v, 0)
		return out
	}
	type cmp struct {
		op          string // "<" : left < right
		left, right map[string]bool
		guards      bool
		inScan      bool
		pos         token.Pos
	}
	var cmps []cmp
	for _, g := range cone {
		for _, b := range g.Blocks {
			for _, in := range b.Instrs {
				bo, ok := in.(*ssa.BinOp)
				if !ok || !isIntegerType(bo.X.Type()) {
					continue
				}
				l, rr := bo.X, bo.Y
				op := ""
				negated := false
				switch bo.Op {
				case token.LSS:
					op = "<"
				case token.GTR:
					l, rr, op = rr, l, "<"
				case token.GEQ: // !(l < r)
					op, negated = "<", true
				case token.LEQ: // !(r < l)
					l, rr, op, negated = rr, l, "<", true
				default:
					continue
				}
				c := cmp{op: op, left: sources(l), right: sources(rr), pos: bo.Pos()}
				// does the outcome "left < right" lead to an error exit?
				for _, ref := range *bo.Referrers() {
					var ifi *ssa.If
					neg := negated
					switch x := ref.(type) {
					case *ssa.If:
						ifi = x
					case *ssa.UnOp:
						if x.Op == token.NOT {
							for _, r2 := range *x.Referrers() {
								if y, ok := r2.(*ssa.If); ok {
									ifi, neg = y, !negated
								}
							}
						}
					}
					if ifi == nil {
						continue
					}
					succ := ifi.Block().Succs[0]
					if neg {
						succ = ifi.Block().Succs[1]
					}
					if len(succ.Preds) != 1 {
						continue
					}
					for _, eb := range g.Blocks {
						if !succ.Dominates(eb) {
							continue
						}
						for _, in2 := range eb.Instrs {
							if ec, ok := in2.(ssa.CallInstruction); ok && ec.Common().StaticCallee() != nil && ec.Common().StaticCallee().Object() == types.Object(cerr) {
								c.guards = true
							}
						}
					}
				}
				for t := range c.left {
					if strings.HasPrefix(t, "schema.Lb[i].") {
						c.inScan = true
					}
				}
				for t := range c.right {
					if strings.HasPrefix(t, "schema.Lb[i].") {
						c.inScan = true
					}
				}
				cmps = append(cmps, c)
			}
		}
	}
	has := func(m map[string]bool, k string) bool { return m[k] }
	find := func(pred func(c cmp) bool) bool {
		for _, c := range cmps {
			if c.guards && pred(c) {
				return true
			}
		}
		return false
	}
	tests := []struct {
		what string
		pred func(c cmp) bool
	}{
		{"parsed start < base minimum", func(c cmp) bool {
			return has(c.left, "parse.Lb[i].Start") && has(c.right, "schema.Lb[0].Start") && !c.inScan
		}},
		{"parsed end > base maximum", func(c cmp) bool {
			return has(c.right, "parse.Lb[i].End") && has(c.left, "schema.Lb[last].End") && !c.inScan
		}},
		{"resolved start < start of the current run of base parts", func(c cmp) bool {
			return has(c.left, "parse.Lb[i].Start") && has(c.left, "schema.Lb[0].Start") && has(c.right, "schema.Lb[i].Start")
		}},
	}
	for _, t := range tests {
		r.Check(find(t.pred), "R13.4", "getLength: "+t.what, pos, "⇒ error", "the length narrowing test `"+t.what+"` no longer guards an error exit")
	}
	// inside the scan, what is compared with a base part is a resolved bound
	bad := token.NoPos
	nScan := 0
	for _, c := range cmps {
		if !c.inScan {
			continue
		}
		for _, side := range []map[string]bool{c.left, c.right} {
			parsed := side["parse.Lb[i].Start"] || side["parse.Lb[i].End"]
			resolved := side["schema.Lb[0].Start"] || side["schema.Lb[last].End"]
			if parsed {
				nScan++
				if !resolved {
					bad = c.pos
				}
			}
		}
	}
	r.Check(!bad.IsValid() && nScan >= 2, "R13.4", "getLength subset test uses resolved bounds", pos, "lb.Start >= rangeMin && lb.End <= rangeMax", "the subset-of-a-base-part test reads the parsed boundary (which is 0 for min/max keywords) instead of the resolved one ("+w.PosStr(bad)+"): \"5..max\" over \"1..10 | 20..30\" is accepted across the gap")
}

// c13BoundaryTests lists the comparisons of range boundaries in f whose
// outcome leads to an error exit, each written as [!]Method(left,right) with
// the operands named by what they read: GetStart/GetEnd of part 0, of the
// loop's part i, or of its predecessor i-1.
func c13BoundaryTests(w *World, f *ssa.Function, cerr *types.Func) []string {
	return c13BoundaryTestsIn(w, f, cerr, nil, 0)
}

// c13BoundaryTestsIn: outer resolves a parameter of f (used as a part index) to
// the index it is given at the call site looked at — a test moved into a
// helper that is handed the index reads as the test at the caller's index.
func c13BoundaryTestsIn(w *World, f *ssa.Function, cerr *types.Func, outer func(*ssa.Parameter) string, depth int) []string {
	if f == nil {
		return nil
	}
	var indexOf func(v ssa.Value) string
	indexOf = func(v ssa.Value) string {
		switch x := v.(type) {
		case *ssa.Const:
			if k, ok := intConstOf(x); ok {
				return fmt.Sprint(k)
			}
		case *ssa.Phi:
			return "i"
		case *ssa.Parameter:
			if outer != nil {
				return outer(x)
			}
		case *ssa.BinOp:
			if one, ok := intConstOf(x.Y); ok && one == 1 {
				if base := indexOf(x.X); base == "i" {
					if x.Op == token.SUB {
						return "i-1"
					} else if x.Op == token.ADD {
						return "i+1"
					}
				}
			}
		}
		return "?"
	}
	operand := func(v ssa.Value) string {
		c, ok := v.(*ssa.Call)
		if !ok || !c.Call.IsInvoke() || len(c.Call.Args) != 1 {
			return "?"
		}
		n := c.Call.Method.Name()
		if n != "GetStart" && n != "GetEnd" {
			return "?"
		}
		return n + "(" + indexOf(c.Call.Args[0]) + ")"
	}
	errorIn := func(b *ssa.BasicBlock) bool {
		for _, eb := range f.Blocks {
			if !b.Dominates(eb) {
				continue
			}
			for _, in := range eb.Instrs {
				if c, ok := in.(ssa.CallInstruction); ok && c.Common().StaticCallee() != nil && c.Common().StaticCallee().Object() == types.Object(cerr) {
					return true
				}
			}
		}
		return false
	}
	set := map[string]bool{}
	for _, b := range f.Blocks {
		for _, in := range b.Instrs {
			c, ok := in.(*ssa.Call)
			if !ok {
				continue
			}
			// a helper of the package that is handed a part index: its tests, at that index
			if h := c.Call.StaticCallee(); h != nil && h.Pkg == f.Pkg && h.Blocks != nil && h != f && depth < 2 && h.Object() != types.Object(cerr) {
				site := c
				sub := c13BoundaryTestsIn(w, h, cerr, func(prm *ssa.Parameter) string {
					for k, q := range h.Params {
						if q == prm && k < len(site.Call.Args) {
							return indexOf(site.Call.Args[k])
						}
					}
					return "?"
				}, depth+1)
				for _, d := range sub {
					set[d] = true
				}
				continue
			}
			if !c.Call.IsInvoke() || len(c.Call.Args) != 2 {
				continue
			}
			m := c.Call.Method.Name()
			if m != "LessThan" && m != "GreaterThan" && m != "Contiguous" {
				continue
			}
			for _, ref := range *c.Referrers() {
				var ifi *ssa.If
				neg := false
				switch x := ref.(type) {
				case *ssa.If:
					ifi = x
				case *ssa.UnOp:
					if x.Op == token.NOT {
						for _, r2 := range *x.Referrers() {
							if y, ok := r2.(*ssa.If); ok {
								ifi, neg = y, true
							}
						}
					}
				}
				if ifi == nil {
					continue
				}
				tSucc, fSucc := ifi.Block().Succs[0], ifi.Block().Succs[1]
				if neg {
					tSucc, fSucc = fSucc, tSucc
				}
				desc := m + "(" + operand(c.Call.Args[0]) + "," + operand(c.Call.Args[1]) + ")"
				if len(tSucc.Preds) == 1 && errorIn(tSucc) {
					set[desc] = true
				}
				if len(fSucc.Preds) == 1 && errorIn(fSucc) {
					set["!"+desc] = true
				}
			}
		}
	}
	var out []string
	for k := range set {
		out = append(out, k)
	}
	sort.Strings(out)
	return out
}

package main

import (
	"fmt"
	"go/ast"
	"go/constant"
	"go/token"
	"go/types"
	"sort"
	"strings"

	"golang.org/x/tools/go/ssa"
)

func init() {
	register("C14", checkC14)
	register("C20", checkC20)
}

// RFC 6020 §7.18.3.2 / §12: properties per deviate kind
var rfcDeviate = map[string][]string{
	"deviateNotSupported": {},
	"deviateDelete":       {"default", "must", "unique", "units"},
	"deviateAdd":          {"config", "default", "mandatory", "max-elements", "min-elements", "must", "unique", "units"},
	"deviateReplace":      {"config", "default", "mandatory", "max-elements", "min-elements", "type", "units"},
}

// c14ExtensionType: the node type is one of the extension kinds
// (NodeType.IsExtensionNode, evaluated from its source), which every deviate
// kind lets through.
func c14ExtensionType(w *World, v int64) bool {
	f := w.SSAFunc(w.Method("parse", "NodeType", "IsExtensionNode"))
	sym := NewSym(w)
	sym.Expand = true
	res, ok := pcEvalFree(sym.ResultCond(f, nil), func(a *pcAtom) (bool, bool) {
		if a.subj != "" {
			return a.set.contains(v), true
		}
		return false, false
	})
	if !ok {
		panic(undecided{"NodeType.IsExtensionNode is not a test of the type's value alone"})
	}
	return res
}

// c20KindTest: pf uses its one parameter only in type assertions, or hands
// it to functions of the module that are kind tests themselves, and calls
// nothing else ("" = it is a pure kind test).
func c20KindTest(pf *ssa.Function, depth int) string {
	if len(pf.Params) != 1 || pf.Blocks == nil || depth > 3 {
		return "unexpected shape"
	}
	for _, ref := range *pf.Params[0].Referrers() {
		switch x := ref.(type) {
		case *ssa.TypeAssert, *ssa.DebugRef:
		case *ssa.Call:
			g := x.Call.StaticCallee()
			if g == nil || !strings.HasPrefix(pkgPathOf(g), modPath) || len(x.Call.Args) != 1 {
				return "hands its argument to `" + ref.String() + "`"
			}
			if why := c20KindTest(g, depth+1); why != "" {
				return "calls " + g.Name() + ", which " + why
			}
		default:
			return "uses its argument in `" + ref.String() + "`"
		}
	}
	for _, bb := range pf.Blocks {
		for _, ii := range bb.Instrs {
			ci, isCall := ii.(ssa.CallInstruction)
			if !isCall {
				continue
			}
			g := ci.Common().StaticCallee()
			if g == nil || !strings.HasPrefix(pkgPathOf(g), modPath) || len(ci.Common().Args) != 1 || ci.Common().Args[0] != ssa.Value(pf.Params[0]) {
				return "calls " + ii.String()
			}
		}
	}
	return ""
}

func checkC14(w *World, r *Report) {
	r.NotDecided = []string{
		"equivalence of deviate add/replace/delete with a source edit as a whole (a relation over runtime trees); the step that selects and replaces the statement is decided",
		"which features the caller enables",
	}
	p := w.Pkg("compile")
	cerr := w.Method("compile", "Compiler", "error")
	names, _ := nodeTypeNames(w)

	r.Rule("R14.1", "deviation legality: the core properties each deviate kind accepts equal RFC 6020 §7.18.3.2 (add / delete / replace), not-supported accepts none", 4)
	r.guard("R14.1", func() {
		for _, typ := range []string{"deviateNotSupported", "deviateDelete", "deviateAdd", "deviateReplace"} {
			m := w.Method("compile", typ, "isAllowed")
			fd, _ := w.FuncDecl(m)
			// the statement kinds for which isAllowed returns nil whatever else holds: the nil exits'
			// condition, evaluated for every node type (tests of property.Type() and lookups of it in
			// read-only tables are known; everything else — the extension cardinality — is left open)
			var got []string
			f := w.SSAFunc(m)
			if len(f.Params) < 3 || len(ssaLoops(f)) > 0 {
				panic(undecided{typ + ".isAllowed: shape"})
			}
			prop := f.Params[2]
			sym := NewSym(w)
			sym.Expand = true
			accept := pcZ
			for _, row := range sym.retTable(f, 0) {
				if isNilConst(row.val) {
					accept = pcOrF(accept, row.cond)
				}
			}
			isPropType := func(v ssa.Value) bool {
				c, ok := v.(*ssa.Call)
				return ok && c.Call.IsInvoke() && c.Call.Method.Name() == "Type" && c.Call.Value == ssa.Value(prop)
			}
			var vals []int64
			for v := range names {
				vals = append(vals, v)
			}
			sort.Slice(vals, func(i, j int) bool { return vals[i] < vals[j] })
			// deviate add does not accept outright: for its core properties the verdict is the
			// target's own cardinality for the statement (GetCardinalityEnd) instead of the
			// extension cardinality — the kinds that take that route are its list
			for _, b := range f.Blocks {
				for _, in := range b.Instrs {
					if c, ok := in.(*ssa.Call); ok && c.Call.IsInvoke() && c.Call.Method.Name() == "GetCardinalityEnd" && c.Call.Value == ssa.Value(f.Params[1]) {
						if len(c.Call.Args) != 1 || !isPropType(c.Call.Args[0]) {
							panic(undecided{typ + ".isAllowed: cardinality asked for another statement kind"})
						}
						accept = pcOrF(pcAndF(accept, pcZ), sym.PathCond(f.Blocks[0], b, nil))
					}
				}
			}
			for _, v := range vals {
				res, decided := pcEvalFree(accept, func(a *pcAtom) (bool, bool) {
					if bo, ok := a.v.(*ssa.BinOp); ok && a.subj != "" {
						for _, side := range []ssa.Value{bo.X, bo.Y} {
							if isPropType(sym.Resolve(side, a.ctx)) {
								return a.set.contains(v), true
							}
						}
					}
					if keys, idx, ok := pcTableLookup(w, a.v); ok && isPropType(sym.Resolve(idx, a.ctx)) {
						for _, k := range keys {
							if kv, isInt := constant.Int64Val(k); isInt && kv == v {
								return true, true
							}
						}
						return false, true
					}
					return false, false
				})
				if decided && res && !c14ExtensionType(w, v) {
					got = append(got, names[v])
				}
			}
			sort.Strings(got)
			want := rfcDeviate[typ]
			r.Check(strings.Join(got, ",") == strings.Join(want, ","), "R14.1", typ+".isAllowed", fd.Pos(), "{"+strings.Join(got, ",")+"}",
				"properties accepted by "+typ+" are {"+strings.Join(got, ",")+"}; RFC 6020 allows {"+strings.Join(want, ",")+"}")
		}
	})

	r.Rule("R14.2", "status can only weaken downwards and a definition may not reference a more obsolete one in its own module: Current < Deprecated < Obsolete; getStatus rejects own < inherited; assertReferenceStatus rejects source < destination, inside one module only", 4)
	r.guard("R14.2", func() {
		sp := w.Pkg("schema")
		val := func(n string) int64 {
			c, ok := scopeLookup(sp.Types.Scope(), n).(*types.Const)
			if !ok {
				panic(undecided{"schema." + n})
			}
			v, _ := constant.Int64Val(c.Val())
			return v
		}
		r.Check(val("Current") < val("Deprecated") && val("Deprecated") < val("Obsolete"), "R14.2", "status order", token.NoPos, "Current < Deprecated < Obsolete", "status constants are not ordered current < deprecated < obsolete")
		gs := w.Method("compile", "Compiler", "getStatus")
		fd, _ := w.FuncDecl(gs)
		ok, returnsOwn, returnsInh := false, false, false
		if gf := w.SSAFunc(gs); gf != nil && len(gf.Params) == 3 && len(ssaLoops(gf)) == 0 {
			inhP := ssa.Value(gf.Params[2])
			sym := NewSym(w)
			sym.Expand = false
			ps := w.SSAFunc(w.Func("compile", "parseStatus"))
			isOwn := func(v ssa.Value) bool {
				c, isC := v.(*ssa.Call)
				return isC && ps != nil && c.Call.StaticCallee() == ps
			}
			classify := func(a *pcAtom) string {
				if a.op == token.EQL && a.x != nil && a.y != nil {
					for _, pair := range [][2]ssa.Value{{a.x, a.y}, {a.y, a.x}} {
						if c, isC := pair[0].(*ssa.Call); isC && c.Call.IsInvoke() && nm(c.Call.Method) == "ChildByType" && isNilConst(pair[1]) {
							return "nostmt"
						}
					}
				}
				if a.op == token.LSS && a.x != nil && a.y != nil {
					if isOwn(a.x) && a.y == inhP {
						return "stronger" // own < inherited
					}
					if a.x == inhP && isOwn(a.y) {
						return "weaker" // inherited < own
					}
				}
				return ""
			}
			errCond := pcZ
			nErr := 0
			for _, bl := range gf.Blocks {
				for _, in := range bl.Instrs {
					if c, isC := in.(*ssa.Call); isC && c.Call.StaticCallee() != nil && c.Call.StaticCallee().Object() == types.Object(cerr) {
						nErr++
						errCond = pcOrF(errCond, sym.PathCond(gf.Blocks[0], bl, nil))
					}
				}
			}
			sawStronger := false
			for _, a := range errCond.atoms() {
				sawStronger = sawStronger || classify(a) == "stronger"
			}
			ok = nErr > 0 && sawStronger && pcCompare(errCond, classify, func(env map[string]bool) bool { return !env["nostmt"] && env["stronger"] }) == ""
			// what is handed back: the written status when there is one, else the inherited one
			good := true
			for _, row := range sym.retTable(gf, 0) {
				if !pcSat(row.cond) {
					continue
				}
				switch {
				case isOwn(row.val):
					returnsOwn = true
					good = good && pcImplies(row.cond, classify, func(env map[string]bool) bool { return !env["nostmt"] }) == ""
				case row.val == inhP:
					returnsInh = true
					good = good && pcImplies(row.cond, classify, func(env map[string]bool) bool { return env["nostmt"] }) == ""
				default:
					good = false
				}
			}
			returnsOwn, returnsInh = returnsOwn && good, returnsInh && good
		}
		r.Check(ok && returnsOwn && returnsInh, "R14.2", "getStatus", fd.Pos(), "own < inherited ⇒ error; own if present else inherited", "a child may declare a status stronger (less obsolete) than its parent's, or the inherited status is not passed down")
		ars := w.Method("compile", "Compiler", "assertReferenceStatus")
		afd, _ := w.FuncDecl(ars)
		sameMod, cmp := false, false
		if af := w.SSAFunc(ars); af != nil && len(af.Params) == 4 {
			src, dst := af.Params[1], af.Params[2]
			sym := NewSym(w)
			sym.Expand = false
			gs := w.SSAFunc(w.Method("compile", "Compiler", "getStatus"))
			statusOf := func(v ssa.Value) *ssa.Parameter {
				c, ok := v.(*ssa.Call)
				if !ok || c.Call.StaticCallee() != gs || len(c.Call.Args) < 2 {
					return nil
				}
				prm, _ := c.Call.Args[1].(*ssa.Parameter)
				return prm
			}
			rootOf := func(v ssa.Value) *ssa.Parameter {
				c, ok := v.(*ssa.Call)
				if !ok || !c.Call.IsInvoke() || nm(c.Call.Method) != "Root" {
					return nil
				}
				prm, _ := c.Call.Value.(*ssa.Parameter)
				return prm
			}
			classify := func(a *pcAtom) string {
				if a.x == nil || a.y == nil {
					return ""
				}
				if a.op == token.EQL && ((rootOf(a.x) == src && rootOf(a.y) == dst) || (rootOf(a.x) == dst && rootOf(a.y) == src)) {
					return "same"
				}
				if a.op == token.LSS {
					if statusOf(a.x) == src && statusOf(a.y) == dst {
						return "less"
					}
					if statusOf(a.x) == dst && statusOf(a.y) == src {
						return "more"
					}
				}
				return ""
			}
			errCond := pcZ
			nErr := 0
			for _, bl := range af.Blocks {
				for _, in := range bl.Instrs {
					if c, ok := in.(*ssa.Call); ok && c.Call.StaticCallee() != nil && c.Call.StaticCallee().Object() == types.Object(cerr) {
						nErr++
						errCond = pcOrF(errCond, sym.PathCond(af.Blocks[0], bl, nil))
					}
				}
			}
			if nErr > 0 {
				hasSame, hasLess := false, false
				for _, a := range errCond.atoms() {
					switch classify(a) {
					case "same":
						hasSame = true
					case "less":
						hasLess = true
					}
				}
				// refused exactly for: same module ∧ status(src) < status(dst)
				ok := pcCompare(errCond, classify, func(env map[string]bool) bool { return env["same"] && env["less"] }) == ""
				sameMod = hasSame && ok
				cmp = hasLess && ok
			}
		}
		r.Check(sameMod, "R14.2", "assertReferenceStatus: same module only", afd.Pos(), "src.Root() != dst.Root() ⇒ return", "the reference-status rule is applied across modules (or not restricted at all)")
		r.Check(cmp, "R14.2", "assertReferenceStatus: comparison", afd.Pos(), "status(src) < status(dst) ⇒ error", "a current definition may reference a deprecated/obsolete one in its own module")
	})

	r.Rule("R14.11", "the reference-status rule sees every node on an augment or refine path, the target included: in getDataDescendant the checker handed in is called on each node found before that node is returned or descended into", 1)
	r.guard("R14.11", func() {
		f := w.SSAFunc(w.Method("compile", "Compiler", "getDataDescendant"))
		if f == nil {
			panic(undecided{"Compiler.getDataDescendant"})
		}
		var checker *ssa.Parameter
		for _, prm := range f.Params {
			if sig, ok := prm.Type().Underlying().(*types.Signature); ok && sig.Params().Len() == 1 && sig.Results().Len() == 0 {
				checker = prm
			}
		}
		if checker == nil {
			panic(undecided{"getDataDescendant: checker parameter"})
		}
		var found []*ssa.Call // the node found at this level
		for _, b := range f.Blocks {
			for _, in := range b.Instrs {
				if c, ok := in.(*ssa.Call); ok && c.Call.StaticCallee() != nil && nm(c.Call.StaticCallee()) == "getNext" {
					found = append(found, c)
				}
			}
		}
		if len(found) == 0 {
			panic(undecided{"getDataDescendant: lookup of the next node"})
		}
		checkedAt := func(node ssa.Value, at ssa.Instruction) bool {
			for _, b := range f.Blocks {
				for i, in := range b.Instrs {
					c, ok := in.(*ssa.Call)
					if !ok || c.Call.Value != ssa.Value(checker) || len(c.Call.Args) != 1 || c.Call.Args[0] != node {
						continue
					}
					if b == at.Block() {
						for j, x := range b.Instrs {
							if x == at && i < j {
								return true
							}
						}
					} else if b.Dominates(at.Block()) {
						return true
					}
				}
			}
			return false
		}
		why := ""
		uses := 0
		for _, node := range found {
			for _, ref := range *node.Referrers() {
				switch x := ref.(type) {
				case *ssa.Return:
					uses++
					if !checkedAt(node, x) {
						why = "the node found is returned without having been shown to the checker"
					}
				case *ssa.Call:
					if x.Call.Value == ssa.Value(checker) {
						continue
					}
					uses++
					if !checkedAt(node, x) {
						why = "the path is followed below a node that was not shown to the checker"
					}
				}
			}
		}
		r.Check(why == "" && uses > 0, "R14.11", "getDataDescendant shows every node to the checker", f.Pos(), "checker(next) before next is returned or descended into", why+": e.g. a current uses may refine (or augment) a deprecated or obsolete node of a grouping in its own module, which RFC 6020 §7.19.2 forbids")
	})

	r.Rule("R14.3", "config inheritance: getConfig rejects exactly (inherited false, own true), returns the own value when the statement is present and the inherited one otherwise", 1)
	r.guard("R14.3", func() {
		gc := w.Method("compile", "Compiler", "getConfig")
		fd, _ := w.FuncDecl(gc)
		rejects, retOwn, retInh := false, false, false
		if f := w.SSAFunc(gc); f != nil && len(f.Params) == 3 && len(ssaLoops(f)) == 0 {
			sym := NewSym(w)
			inhP := f.Params[2]
			isOwn := func(v ssa.Value) bool {
				c, ok := v.(*ssa.Call)
				return ok && c.Call.IsInvoke() && c.Call.Method.Name() == "ArgBool"
			}
			classify := func(a *pcAtom) string {
				if a.v == ssa.Value(inhP) {
					return "inh"
				}
				if isOwn(a.v) {
					return "own"
				}
				if a.op == token.EQL && a.x != nil {
					for _, pair := range [][2]ssa.Value{{a.x, a.y}, {a.y, a.x}} {
						if c, ok := pair[0].(*ssa.Call); ok && isNilConst(pair[1]) && c.Call.IsInvoke() && c.Call.Method.Name() == "ChildByType" {
							return "nostmt"
						}
					}
				}
				return ""
			}
			for _, b := range f.Blocks {
				for _, in := range b.Instrs {
					if c, ok := in.(ssa.CallInstruction); ok && c.Common().StaticCallee() != nil && c.Common().StaticCallee().Object() == types.Object(cerr) {
						rejects = pcCompare(sym.PathCond(f.Blocks[0], b, nil), classify, func(env map[string]bool) bool { return !env["nostmt"] && !env["inh"] && env["own"] }) == ""
					}
				}
			}
			// exits of one kind are joined (one return fed from several places)
			ownCond, inhCond, other := pcZ, pcZ, false
			for _, row := range sym.retTable(f, 0) {
				switch {
				case isOwn(row.val):
					ownCond = pcOrF(ownCond, row.cond)
				case row.val == ssa.Value(inhP):
					inhCond = pcOrF(inhCond, row.cond)
				default:
					other = true
				}
			}
			if !other {
				retOwn = pcCompare(ownCond, classify, func(env map[string]bool) bool { return !env["nostmt"] }) == ""
				retInh = pcCompare(inhCond, classify, func(env map[string]bool) bool { return env["nostmt"] }) == ""
			}
		}
		r.Check(rejects && retOwn && retInh, "R14.3", "getConfig", fd.Pos(), "error iff inherited=false ∧ own=true; returns own if present else inherited", "config true under config false is not (exactly) what is rejected, or config false is not inherited by descendants")
	})

	r.Rule("R14.4", "presence: a node is ignored when deviated not-supported or when any of its if-features is disabled; a feature is enabled iff it is enabled itself and every feature it depends on is (conjunction accumulated over all dependencies)", 3)
	r.guard("R14.4", func() {
		ig := w.Method("compile", "Compiler", "IgnoreNode")
		fd, _ := w.FuncDecl(ig)
		ns, loop, last := false, false, false
		if f := w.SSAFunc(ig); f != nil {
			sym := NewSym(w)
			sym.Expand = false
			cif := w.Method("compile", "Compiler", "CheckIfFeature")
			classify := func(a *pcAtom) string {
				if c, ok := a.v.(*ssa.Call); ok {
					if c.Call.IsInvoke() && c.Call.Method.Name() == "NotSupported" {
						return "ns"
					}
					if sc := c.Call.StaticCallee(); sc != nil && sc.Object() == types.Object(cif) {
						return "feat"
					}
				}
				if a.op == token.LSS && a.x != nil && isRangeIndex(a.x) {
					return "iter"
				}
				return ""
			}
			loops := ssaLoops(f)
			if len(loops) == 0 {
				// the scan of the if-features handed to slices.ContainsFunc: ignored iff the test — "this
				// feature is not enabled" — holds for one of them
				early := pcZ
				valsOK := true
				for _, row := range sym.retTable(f, 0) {
					if k, isK := row.val.(*ssa.Const); isK && k.Value != nil {
						valsOK = valsOK && k.Value.ExactString() == "true"
						early = pcOrF(early, row.cond)
						continue
					}
					call, isCall := row.val.(*ssa.Call)
					if !isCall {
						valsOK = false
						continue
					}
					list, test := containsFuncCall(call)
					src, isSrc := list.(*ssa.Call)
					if test == nil || !isSrc || !src.Call.IsInvoke() || nm(src.Call.Method) != "ChildrenByType" {
						valsOK = false
						continue
					}
					loop = pcCompare(sym.ResultCond(test, nil), classify, func(env map[string]bool) bool { return !env["feat"] }) == ""
					last = pcCompare(row.cond, classify, func(env map[string]bool) bool { return !env["ns"] }) == ""
				}
				ns = valsOK && pcCompare(early, classify, func(env map[string]bool) bool { return env["ns"] }) == ""
				loop, last = loop && valsOK, last && valsOK
			}
			if len(loops) == 1 {
				l := loops[0]
				early, inLoop, after := pcZ, pcZ, pcZ
				valsOK := true
				for _, b := range f.Blocks {
					ret, ok := b.Instrs[len(b.Instrs)-1].(*ssa.Return)
					if !ok || len(ret.Results) != 1 {
						continue
					}
					k, isK := ret.Results[0].(*ssa.Const)
					if !isK || k.Value == nil {
						valsOK = false
						continue
					}
					tv := k.Value.ExactString() == "true"
					switch {
					case !l.Header.Dominates(b):
						early = pcOrF(early, sym.PathCond(f.Blocks[0], b, nil))
						valsOK = valsOK && tv
					case l.body()[b] || reachesLatchFree(b, l):
						inLoop = pcOrF(inLoop, sym.PathCond(l.Header, b, nil))
						valsOK = valsOK && tv
					default:
						after = pcOrF(after, sym.PathCond(l.Header, b, nil))
						valsOK = valsOK && !tv
					}
				}
				ns = valsOK && pcCompare(early, classify, func(env map[string]bool) bool { return env["ns"] }) == "" &&
					pcCompare(sym.PathCond(f.Blocks[0], l.Header, nil), classify, func(env map[string]bool) bool { return !env["ns"] }) == ""
				loop = valsOK && pcCompare(inLoop, classify, func(env map[string]bool) bool { return env["iter"] && !env["feat"] }) == ""
				last = valsOK && pcCompare(after, classify, func(env map[string]bool) bool { return !env["iter"] }) == ""
			}
		}
		r.Check(ns && loop && last, "R14.4", "IgnoreNode", fd.Pos(), "not-supported ⇒ ignored; any false if-feature ⇒ ignored; else present", "node presence is no longer 'not deviated away and every if-feature enabled'")
		ifv := w.Method("compile", "Compiler", "isFeatureValid")
		ifd, _ := w.FuncDecl(ifv)
		// the value carried round the loop over the if-feature children is, after
		// each round, <recursive verdict> ∧ <value before>; it starts from the
		// feature's own setting and is what the function returns
		acc, retOK, ownOK := false, false, false
		if vf := w.SSAFunc(ifv); vf != nil {
			sym := NewSym(w)
			sym.Expand = false
			own := w.SSAFunc(w.Method("compile", "Compiler", "featureEnabled"))
			for _, bl := range vf.Blocks {
				for _, in := range bl.Instrs {
					h, isPhi := in.(*ssa.Phi)
					if !isPhi || !types.Identical(h.Type().Underlying(), types.Typ[types.Bool]) {
						continue
					}
					var back, init []ssa.Value
					for i, e := range h.Edges {
						if bl.Dominates(bl.Preds[i]) {
							back = append(back, e)
						} else {
							init = append(init, e)
						}
					}
					if len(back) == 0 || len(init) == 0 {
						continue
					}
					classify := func(a *pcAtom) string {
						if a.v == ssa.Value(h) {
							return "prev"
						}
						if c, ok := a.v.(*ssa.Call); ok && a.x == nil {
							switch c.Call.StaticCallee() {
							case vf:
								return "rec"
							case own:
								return "own"
							}
						}
						return ""
					}
					// over the ways round the loop: value carried on = went round ∧ rec ∧ prev
					round, next := pcZ, pcZ
					for i, e := range h.Edges {
						if !bl.Dominates(bl.Preds[i]) {
							continue
						}
						pc := pcAndF(sym.PathCond(bl, bl.Preds[i], nil), sym.edgeCond(bl.Preds[i], bl, nil))
						round = pcOrF(round, pc)
						next = pcOrF(next, pcAndF(pc, sym.Cond(e, nil)))
					}
					var recs []*ssa.Call
					for _, lb := range vf.Blocks {
						if !bl.Dominates(lb) {
							continue
						}
						for _, lin := range lb.Instrs {
							if c, ok := lin.(*ssa.Call); ok && c.Call.StaticCallee() == vf {
								recs = append(recs, c)
							}
						}
					}
					okBack := len(recs) == 1
					if okBack {
						want := pcAndF(round, pcAndF(sym.Cond(recs[0], nil), sym.Cond(h, nil)))
						same := pcOrF(pcAndF(next, want), pcAndF(pcNotF(next), pcNotF(want)))
						okBack = pcCompare(same, func(*pcAtom) string { return "" }, func(map[string]bool) bool { return true }) == ""
					}
					okInit := true
					for _, e := range init {
						okInit = okInit && pcCompare(sym.Cond(e, nil), classify, func(env map[string]bool) bool { return env["own"] }) == ""
					}
					if !okBack {
						continue
					}
					acc = true
					ownOK = okInit
					nH, others := 0, true
					for _, rb := range vf.Blocks {
						ret, isRet := rb.Instrs[len(rb.Instrs)-1].(*ssa.Return)
						if !isRet || len(ret.Results) != 1 {
							continue
						}
						rv := unspill(ret.Results[0])
						if rv == ssa.Value(h) {
							nH++
						} else if k, isK := rv.(*ssa.Const); !isK || k.Value == nil || constant.BoolVal(k.Value) {
							others = false
						}
					}
					retOK = nH > 0 && others
				}
			}
		}
		r.Check(acc && retOK && ownOK, "R14.4", "isFeatureValid conjunction", ifd.Pos(), "enabled = featureEnabled(self); for each dependency: enabled = valid(dep) && enabled; return enabled", "the enablement of a feature is not the conjunction of its own setting and of every feature it depends on (e.g. only the last dependency counts)")
		cif := w.Method("compile", "Compiler", "CheckIfFeature")
		cfd, _ := w.FuncDecl(cif)
		// the result, with helpers read through, is `c.verifiedFeatures.Status(name) == ENABLED`
		okC := false
		if cf := w.SSAFunc(cif); cf != nil && len(ssaLoops(cf)) == 0 {
			vf := w.Field("compile", "Compiler", "verifiedFeatures")
			enabled, _ := pkgConstInt(w, "compile", "ENABLED")
			fc := NewSym(w).ResultCond(cf, nil)
			if as := fc.atoms(); len(as) == 1 && fc.k == pcAtomK && as[0].subj != "" && as[0].set.equal(isetOf(enabled)) {
				if bo, ok := as[0].v.(*ssa.BinOp); ok {
					for _, side := range []ssa.Value{bo.X, bo.Y} {
						if call, ok := side.(*ssa.Call); ok && pcCalleeName(call.Common()) != "" && strings.HasSuffix(pcCalleeName(call.Common()), "Status") {
							// asked of the verified table
							var recv ssa.Value
							if call.Call.IsInvoke() {
								recv = call.Call.Value
							} else if len(call.Call.Args) > 0 {
								recv = call.Call.Args[0]
							}
							for d := 0; d < 4 && recv != nil; d++ {
								switch x := recv.(type) {
								case *ssa.UnOp:
									recv = x.X
									continue
								case *ssa.FieldAddr:
									if isFieldAddrOf(x, vf) {
										okC = true
									}
								case *ssa.Field:
									st := x.X.Type().Underlying().(*types.Struct)
									if st.Field(x.Field) == vf {
										okC = true
									}
								}
								break
							}
						}
					}
				}
			}
		}
		r.Check(okC, "R14.4", "CheckIfFeature", cfd.Pos(), "returns the verified (transitive) enablement", "if-feature is evaluated against the raw feature setting, not the verified one that includes dependencies")
		// the feature asked about is <defining module>:<feature>, both as getModuleAndReference resolved them
		okKey := false
		if cf := w.SSAFunc(cif); cf != nil {
			isNameOf := func(v ssa.Value, idx int) bool {
				call, ok := v.(*ssa.Call)
				if !ok || !call.Call.IsInvoke() || nm(call.Call.Method) != "Name" {
					return false
				}
				ex, ok := call.Call.Value.(*ssa.Extract)
				if !ok || ex.Index != idx {
					return false
				}
				src, ok := ex.Tuple.(*ssa.Call)
				return ok && src.Call.StaticCallee() != nil && nm(src.Call.StaticCallee()) == "getModuleAndReference"
			}
			for _, b := range cf.Blocks {
				for _, in := range b.Instrs {
					bo, ok := in.(*ssa.BinOp)
					if !ok || bo.Op != token.ADD || !isStringType(bo.Type()) {
						continue
					}
					inner, ok := bo.X.(*ssa.BinOp)
					if !ok || inner.Op != token.ADD {
						continue
					}
					if k, isK := inner.Y.(*ssa.Const); isK && k.Value != nil && k.Value.Kind() == constant.String && constant.StringVal(k.Value) == ":" && isNameOf(inner.X, 0) && isNameOf(bo.Y, 1) {
						okKey = true
					}
				}
			}
		}
		r.Check(okKey, "R14.4", "CheckIfFeature asks about the defining module's feature", cfd.Pos(), "key = module.Name() + \":\" + feature.Name(), both as resolved from the reference",
			"the feature is looked up under another module's name than the one the reference resolves to (e.g. the module the if-feature statement ended up in): an if-feature on a feature of another module — a prefixed reference, or one inside a grouping used elsewhere — is always taken as disabled")
	})

	r.Rule("R14.5", "inheritance while descending: BuildNode applies overrideInherited before dispatching to any kind-specific builder and hands its result to that builder; overrideInherited derives status and config through getStatus / getConfig from the inherited values", 2)
	r.guard("R14.5", func() {
		bn := w.Method("compile", "Compiler", "BuildNode")
		fd, _ := w.FuncDecl(bn)
		oi := w.Method("compile", "Compiler", "overrideInherited")
		// every kind-specific builder called from BuildNode gets, as its inherited
		// values, the very result of overrideInherited
		first, all := false, true
		n := 0
		if bf := w.SSAFunc(bn); bf != nil {
			for _, b := range bf.Blocks {
				for _, in := range b.Instrs {
					c, ok := in.(*ssa.Call)
					if !ok || c.Call.StaticCallee() == nil {
						continue
					}
					callee := c.Call.StaticCallee()
					if co, ok := callee.Object().(*types.Func); !ok || !strings.HasPrefix(nm(callee), "Build") || co == bn || recvNamed(co) != "Compiler" {
						continue
					}
					n++
					if len(c.Call.Args) < 2 {
						all = false
						continue
					}
					src, ok := c.Call.Args[1].(*ssa.Call)
					if !ok || src.Call.StaticCallee() == nil || src.Call.StaticCallee().Object() != types.Object(oi) {
						all = false
						continue
					}
					first = true
				}
			}
		}
		r.Check(first && all && n >= 6, "R14.5", "BuildNode", fd.Pos(), fmt.Sprintf("overrideInherited first; its result passed to all %d builders", n), "a kind-specific builder receives the parent's inherited values instead of the node's own (config false / status would not propagate to descendants)")
		ofd, _ := w.FuncDecl(oi)
		gs, gc := w.Method("compile", "Compiler", "getStatus"), w.Method("compile", "Compiler", "getConfig")
		okO := len(allCallsTo(p, ofd.Body, gs)) == 1 && len(allCallsTo(p, ofd.Body, gc)) == 1
		r.Check(okO, "R14.5", "overrideInherited", ofd.Pos(), "status via getStatus, config via getConfig", "status/config are not derived through the checking accessors")
	})

	r.Rule("R14.7", "no stale inherited status: where a function overrides its inherited-status parameter with the node's own status statement, the bare parameter has no later use — everything beneath sees the derived status", 1)
	r.guard("R14.7", func() { c14StaleStatus(w, r) })

	r.Rule("R14.8", "if-feature and status written on a uses or augment reach every node it introduces, whatever the node carries itself: inheritCommonProperties adds them unconditionally (a node is present iff ALL its if-features are enabled)", 3)
	r.guard("R14.8", func() { c12InheritUnconditional(w, r, "R14.8") })

	r.Rule("R14.9", "deviate not-supported is exclusive wherever it stands among the deviate statements: its application is dominated by the unconditional test `more than one deviate ⇒ error`", 1)
	r.guard("R14.9", func() { c14NotSupportedExclusive(w, r) })

	r.Rule("R14.10", "deviate properties are checked one by one against the target as edited so far: doDeviate calls isAllowed and then propertyAction for a property within the same loop iteration", 1)
	r.guard("R14.10", func() { c14DeviateInterleaved(w, r) })

	r.Rule("R14.6", "deviate edits hit the statement they name: delete removes the child found by type and argument, replace substitutes by type after checking existence, add appends", 3)
	r.guard("R14.6", func() {
		dd := w.Method("compile", "deviateDelete", "propertyAction")
		fd, _ := w.FuncDecl(dd)
		okDel := false
		if df := w.SSAFunc(dd); df != nil && len(df.Params) == 3 {
			target, property := df.Params[1], df.Params[2]
			sym := NewSym(w)
			invokeOn := func(v ssa.Value, ctx *symCtx, name string, on *ssa.Parameter) *ssa.Call {
				c, ok := sym.Resolve(v, ctx).(*ssa.Call)
				if !ok || !c.Call.IsInvoke() || nm(c.Call.Method) != name || sym.Resolve(c.Call.Value, ctx) != ssa.Value(on) {
					return nil
				}
				return c
			}
			nRemoved, good := 0, true
			callsWithCtx(df, 2, func(c *ssa.Call, ctx *symCtx) {
				if !c.Call.IsInvoke() || nm(c.Call.Method) != "ReplaceChild" || len(c.Call.Args) != 2 {
					return
				}
				nRemoved++
				if sym.Resolve(c.Call.Value, ctx) != ssa.Value(target) {
					good = false
				}
				if k, isK := c.Call.Args[1].(*ssa.Const); !isK || !k.IsNil() {
					good = false // something is put in its place
				}
				os := sym.Origins(c.Call.Args[0], ctx, 0)
				for _, o := range os {
					lc := invokeOn(o.v, o.ctx, "LookupChild", target)
					if lc == nil || len(lc.Call.Args) != 2 || invokeOn(lc.Call.Args[0], o.ctx, "Type", property) == nil || invokeOn(lc.Call.Args[1], o.ctx, "Name", property) == nil {
						good = false
					}
				}
				good = good && len(os) > 0
			})
			okDel = good && nRemoved > 0
		}
		r.Check(okDel, "R14.6", "deviateDelete.propertyAction", fd.Pos(), "removes the child LookupChild(type, argument) found", "deviate delete does not remove exactly the statement matched by type and argument (with several must/unique statements the wrong one is removed)")
		dr := w.Method("compile", "deviateReplace", "propertyAction")
		rfd, _ := w.FuncDecl(dr)
		okRep := false
		exists := false
		if rf := w.SSAFunc(dr); rf != nil && len(rf.Params) == 3 {
			sym := NewSym(w)
			callsWithCtx(rf, 2, func(c *ssa.Call, ctx *symCtx) {
				if c.Call.IsInvoke() && nm(c.Call.Method) == "ReplaceChildByType" && len(c.Call.Args) == 2 &&
					sym.Resolve(c.Call.Value, ctx) == ssa.Value(rf.Params[1]) {
					if mi, isMI := sym.Resolve(c.Call.Args[1], ctx).(*ssa.MakeInterface); isMI {
						okRep = sym.Resolve(mi.X, ctx) == ssa.Value(rf.Params[2])
					} else {
						okRep = sym.Resolve(c.Call.Args[1], ctx) == ssa.Value(rf.Params[2])
					}
				}
			})
		}
		for _, hfd := range localHelperDecls(w, p, dr) {
			ast.Inspect(hfd.Body, func(x ast.Node) bool {
				if is, ok := x.(*ast.IfStmt); ok {
					if be, ok := ast.Unparen(is.Cond).(*ast.BinaryExpr); ok && (be.Op == token.EQL || be.Op == token.LSS) {
						if v, ok := ConstInt(p, be.Y); ok && ((v == 0 && be.Op == token.EQL) || (v == 1 && be.Op == token.LSS)) && len(returnsIn(is.Body)) == 1 {
							exists = true
						}
					}
				}
				return true
			})
		}
		r.Check(okRep && exists, "R14.6", "deviateReplace.propertyAction", rfd.Pos(), "must exist; ReplaceChildByType(type, property)", "deviate replace does not require the property to exist or does not substitute it by type")
		da := w.Method("compile", "deviateAdd", "propertyAction")
		afd, _ := w.FuncDecl(da)
		okAdd := false
		if af := w.SSAFunc(da); af != nil && len(af.Params) == 3 {
			sym := NewSym(w)
			callsWithCtx(af, 2, func(c *ssa.Call, ctx *symCtx) {
				if !c.Call.IsInvoke() || nm(c.Call.Method) != "AddChildren" || len(c.Call.Args) != 1 || sym.Resolve(c.Call.Value, ctx) != ssa.Value(af.Params[1]) {
					return
				}
				// the variadic list holds exactly the property
				for _, el := range sliceLiteralElems(c.Call.Args[0]) {
					if sym.Resolve(el, ctx) == ssa.Value(af.Params[2]) {
						okAdd = true
					}
				}
			})
		}
		_ = afd
		r.Check(okAdd, "R14.6", "deviateAdd.propertyAction", afd.Pos(), "AddChildren(property)", "deviate add does not append the property to the target")
	})
}

// evalBoolExpr evaluates a boolean expression over named boolean variables.
func evalBoolExpr(p *packagesPackage, e ast.Expr, env map[types.Object]bool) (bool, bool) {
	e = ast.Unparen(e)
	if v := ConstOf(p, e); v != nil && v.Kind() == constant.Bool {
		return constant.BoolVal(v), true
	}
	switch x := e.(type) {
	case *ast.Ident:
		if v, ok := env[p.TypesInfo.Uses[x]]; ok {
			return v, true
		}
	case *ast.UnaryExpr:
		if x.Op == token.NOT {
			v, ok := evalBoolExpr(p, x.X, env)
			return !v, ok
		}
	case *ast.BinaryExpr:
		a, ok1 := evalBoolExpr(p, x.X, env)
		b, ok2 := evalBoolExpr(p, x.Y, env)
		if !ok1 || !ok2 {
			return false, false
		}
		switch x.Op {
		case token.LAND:
			return a && b, true
		case token.LOR:
			return a || b, true
		case token.EQL:
			return a == b, true
		case token.NEQ:
			return a != b, true
		}
	}
	return false, false
}

func checkC20(w *World, r *Report) {
	r.NotDecided = []string{
		"whole-tree equality of the filtered compile with the pruned unfiltered compile",
		"filters supplied by callers other than the exported predicates and combinators",
	}
	_ = w.Pkg("compile")

	r.Rule("R20.1", "every built node passes the filter before it is attached, and every node that passes is attached: each slice BuildNode returns is followed (through in-module helpers it is handed to) to the appends of its elements, and the condition under which control reaches each such append is exactly `another element ∧ (c.filter == nil ∨ c.filter(element))`; the slice never leaves otherwise", 2)
	r.guard("R20.1", func() { c20Attach(w, r) })

	r.Rule("R20.6", "nothing BuildNode returns is attached wholesale: in buildChildren and buildListChildren the slice BuildNode returns is never itself appended (spread) to the children — nodes reach the result only one by one through the filter test of R20.1 (a choice is filtered like any other node)", 2)
	r.guard("R20.6", func() {
		for _, fn := range []string{"buildChildren", "buildListChildren"} {
			f := w.SSAFunc(w.Method("compile", "Compiler", fn))
			if f == nil {
				panic(undecided{"Compiler." + fn})
			}
			var built []ssa.Value
			for _, b := range f.Blocks {
				for _, in := range b.Instrs {
					if c, ok := in.(*ssa.Call); ok && c.Call.StaticCallee() != nil && nm(c.Call.StaticCallee()) == "BuildNode" {
						built = append(built, c)
					}
				}
			}
			if len(built) == 0 {
				if h := tailDelegate(f); h != nil && callsNamed(h, "BuildNode") {
					r.OK("R20.6", fn+": BuildNode's result is not appended as a whole", f.Pos(), "hands its whole work to "+h.Name()+", decided there")
					continue
				}
				panic(undecided{fn + ": BuildNode call not found"})
			}
			bad := token.NoPos
			for _, b := range f.Blocks {
				for _, in := range b.Instrs {
					c, ok := in.(*ssa.Call)
					if !ok {
						continue
					}
					if bi, ok := c.Call.Value.(*ssa.Builtin); !ok || nm(bi) != "append" || len(c.Call.Args) != 2 {
						continue
					}
					for _, bv := range built {
						v := c.Call.Args[1]
						if sl, ok := v.(*ssa.Slice); ok {
							v = sl.X
						}
						if v == bv {
							bad = c.Pos()
						}
					}
				}
			}
			r.Check(!bad.IsValid(), "R20.6", fn+": BuildNode's result is not appended as a whole", f.Pos(), "nodes are attached one by one, through the filter", "the nodes BuildNode returned are appended to the children without the filter test ("+w.PosStr(bad)+"): a node that fails the filter (e.g. a choice whose config class differs from its parent's) survives in the filtered schema")
		}
	})

	r.Rule("R20.7", "a check that runs on the already filtered children never turns a filtered-away child into an error: in BuildList's walk over the unique paths every error is about a child that was found", 1)
	r.guard("R20.7", func() { c20UniqueWalk(w, r) })

	r.Rule("R20.2", "filter predicates and combinators: IsConfig = node.Config(); IsState = ¬IsConfig ∧ ¬IsOpd (compared as formulas over the same node); Include returns true exactly when some non-nil member accepts, Exclude false; IncludeState(true) = IsState, IncludeState(false) = Exclude(IsState)", 5)
	r.guard("R20.2", func() { c20Combinators(w, r) })

	r.Rule("R20.8", "a combinator always yields a filter: Include, Exclude, IncludeState and IsConfigOrState return a function of their own on every path — never nil (which the compiler takes for `do not filter at all`) and never one of their arguments as it stands (which may be nil)", 4)
	r.guard("R20.8", func() {
		for _, name := range []string{"Include", "Exclude", "IncludeState", "IsConfigOrState"} {
			f := w.SSAFunc(w.Func("compile", name))
			if f == nil {
				panic(undecided{"compile." + name})
			}
			why := ""
			n := 0
			for _, b := range f.Blocks {
				ret, ok := b.Instrs[len(b.Instrs)-1].(*ssa.Return)
				if !ok || len(ret.Results) != 1 {
					continue
				}
				n++
				v := ret.Results[0]
				if ct, isCT := v.(*ssa.ChangeType); isCT {
					v = ct.X
				}
				switch x := v.(type) {
				case *ssa.MakeClosure, *ssa.Function:
				case *ssa.Call:
					// another combinator of the package
					if g := x.Call.StaticCallee(); g == nil || g.Pkg != f.Pkg {
						why = "returns the result of " + x.String()
					}
				default:
					why = "returns `" + v.String() + "`"
				}
			}
			r.Check(why == "" && n > 0, "R20.8", name+" returns a filter of its own", f.Pos(), "a function literal on every path", name+" "+why+": with no member (or a nil member) the combination is nil, and the compiler then builds the unfiltered schema instead of the pruned one")
		}
	})

	r.Rule("R20.3", "filters are pure: the exported predicates and the closures of the combinators write nothing", 6)
	r.guard("R20.3", func() {
		eff := NewEffects(w)
		// member filters of Include/Exclude are themselves filters: assumed pure (caller-supplied ones are outside)
		eff.AllowDynamic = func(t types.Type) bool { return strings.HasSuffix(t.String(), "compile.SchemaFilter") }
		sp := w.SSAPkg("compile")
		for _, n := range []string{"IsConfig", "IsOpd", "IsState", "Include", "Exclude", "IncludeState"} {
			fn, ok := ssaMember(sp, n).(interface{ String() string })
			_ = fn
			f := ssaFuncNamed(sp, n)
			if f == nil || !ok {
				r.Fail("R20.3", n, token.NoPos, "function not found")
				continue
			}
			fns := append([]*ssaFunction{f}, f.AnonFuncs...)
			pure := true
			for _, g := range fns {
				if len(globalWrites(w, g, map[*ssaFunction]bool{})) > 0 {
					pure = false
				}
				for i := range g.Params {
					if strings.HasSuffix(g.Params[i].Type().String(), "schema.Node") {
						if m, why, pos := eff.Mutates(slot{fn: g, idx: i}); m {
							pure = false
							r.Count("impure: "+n+": "+why+" at "+w.PosStr(pos), 1)
						}
					}
				}
			}
			r.Check(pure, "R20.3", n, f.Pos(), "no store through its argument, no global write", n+" (or its closure) modifies the schema node it inspects or global state: filtering would change surviving nodes")
		}
	})

	r.Rule("R20.5", "schema constructors attach children by kind, not by content: every predicate handed to addToChoices/includeChildrenOf/addToChildrenExcluding in package schema is a named kind test whose body uses its parameter only in type assertions (constructors run bottom-up on already filtered children, so a content-dependent predicate makes a surviving choice/case differ from the pruned unfiltered schema)", 8)
	r.guard("R20.5", func() {
		sp := w.SSAPkg("schema")
		takers := map[string]bool{"addToChoices": true, "includeChildrenOf": true, "addToChildrenExcluding": true}
		for _, t := range []string{"addToChoices", "includeChildrenOf", "addToChildrenExcluding"} {
			if ssaFuncNamed(sp, t) == nil {
				panic(undecided{"schema." + t + " not found"})
			}
		}
		for _, f := range allFuncs(sp) {
			{
				for _, b := range f.Blocks {
					for _, in := range b.Instrs {
						call, ok := in.(ssa.CallInstruction)
						if !ok {
							continue
						}
						callee := call.Common().StaticCallee()
						if callee == nil || callee.Pkg != sp || !takers[nm(callee)] {
							continue
						}
						for ai, a := range call.Common().Args {
							what := fmt.Sprintf("%s: %s arg %d", funcKey(f), callee.Name(), ai)
							for {
								if ct, ok := a.(*ssa.ChangeType); ok {
									a = ct.X
									continue
								}
								break
							}
							if c, ok := a.(*ssa.Const); ok && c.IsNil() {
								r.OK("R20.5", what, in.Pos(), "nil (no predicate)")
								continue
							}
							// a predicate that is a parameter of the function: every value it is given
							vals := []argInstance{{f, call, a}}
							if prm, isParam := a.(*ssa.Parameter); isParam {
								inst, okI := paramInstances(allFuncs(sp), prm, 0)
								if !okI {
									r.Fail("R20.5", what, in.Pos(), "predicate is the parameter "+prm.Name()+" and the values it is given are not all known — cannot show it is a kind test")
									continue
								}
								vals = inst
							}
							for vi, av := range vals {
								what := what
								if len(vals) > 1 || av.caller != f {
									what = fmt.Sprintf("%s (as called from %s #%d)", what, funcKey(av.caller), vi+1)
								}
								if c, ok := av.val.(*ssa.Const); ok && c.IsNil() {
									r.OK("R20.5", what, av.site.Pos(), "nil (no predicate)")
									continue
								}
								pf, ok := av.val.(*ssa.Function)
								if !ok {
									r.Fail("R20.5", what, av.site.Pos(), "predicate is not a named function: "+av.val.String()+" — cannot show it is a kind test")
									continue
								}
								bad := c20KindTest(pf, 0)
								r.Check(bad == "", "R20.5", what, av.site.Pos(), pf.Name()+": pure kind test", pf.Name()+" "+bad+": which children a choice/case/container keeps depends on node content, so a node whose content was pruned by the filter is attached differently than in the unfiltered compile")
							}
						}
					}
				}
			}
		}
	})

	r.Rule("R20.4", "the missing-default-case error is gated by the filter's verdict on the choice itself and by nothing else of the filter: its path condition has the form G ∧ (c.filter == nil ∨ c.filter(choice))", 1)
	r.guard("R20.4", func() { c20DefaultCaseGate(w, r) })
}

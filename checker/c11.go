package main

import (
	"fmt"
	"go/ast"
	"go/token"
	"go/types"
	"os"
	"sort"
	"strings"

	"golang.org/x/tools/go/packages"

	"golang.org/x/tools/go/ssa"
)

func init() { register("C11", checkC11) }

// map iterations whose order can reach an ordered result, with the reason the
// order is unobservable. Key: function + ranged expression.
type mapRangeReview struct {
	Func, Expr, Class, Reason string
	// Carried: the types of the mutable objects from outside the loop that its body mentions
	// (';'-separated): what an iteration may leave for the next was part of the review
	Carried string
}

var c11MapRanges = []mapRangeReview{
	{"Compiler.getDeviations", "‹map[string]struct{}›", "set", "the list of deviating module names of a model is set-valued (membership only)", "[]string"},
	{"Compiler.checkFeatures", "‹*compile.Compiler›.modules", "map+error", "fills the verified-feature map per feature; an error exit does not depend on which erroneous feature is met first", "*compile.Compiler"},
	{"Compiler.getEnabledFeaturesForPrefix", "‹*compile.Compiler›.verifiedFeatures.features", "set", "the enabled-feature list of a module is set-valued", "[]string"},
	{"Compiler.checkIdentities", "‹*compile.Compiler›.modules", "map+error", "collects identities into a map keyed by qualified name", "*compile.Compiler;map[string]parse.Node"},
	{"Compiler.checkIdentities", "‹map[string]parse.Node›", "set", "links derived identities under their base; identityref membership is by name, the order of the derived list is not part of the value space", "*compile.Compiler;map[string]parse.Node"},
	{"Compiler.findMissingImportStatement", "‹*compile.Compiler›.modules", "error-only", "only picks which import statement an error message points at", ""},
	{"Compiler.ExpandModules", "‹*compile.Compiler›.submodules", "map+error", "attaches each submodule to its module's submodule map", "*compile.Compiler"},
	{"Compiler.ExpandModules", "‹*compile.Compiler›.modules", "per-module", "include verification/merging and grouping validation are per module and touch only that module's tree; the import graph is built into a sorter whose vertices are sorted", "*compile.Compiler;*tsort.Graph"},
	{"Compiler.ExpandModules", "‹*parse.Module›.GetSubmodules()", "per-module", "per submodule, touches only that submodule", "*compile.Compiler;*parse.Module"},
	{"Compiler.VerifyModuleIncludes", "‹map[string]parse.Node›", "sorted-later", "edges go into a topological sorter that orders its keys", "*tsort.Graph"},
	{"convertSubmodules", "‹map[string]*parse.Module›", "map", "map to map", "map[string]schema.Model;map[string]schema.Submodule"},
	{"PatternArg.Parse", "patternReplacements", "commutative", "independent textual replacements of distinct character-class names (one entry today)", ""},
	{"node.checkCardinality", "‹*parse.node›.card", "error-only", "first violated cell decides only the error text", "map[parse.NodeType]int"},
	{"node.checkCardinality", "‹map[parse.NodeType]int›", "error-only", "first invalid substatement decides only the error text", "*parse.node"},
	{"newNodeByType", "yangCardinality(‹parse.NodeType›)", "map", "map copy", "map[parse.NodeType]parse.Cardinality"},
	{"newNodeByType", "‹*parse.Tree›.extCard(‹parse.NodeType›)", "map", "map merge; extension cells override RFC cells regardless of order", "map[parse.NodeType]parse.Cardinality"},
	{"NewFakeNodeByType", "cardinalities[‹parse.NodeType›]", "map", "map copy", "*parse.fakeNode"},
	{"NewFakeNodeByType", "‹parse.NodeCardinality›(‹parse.NodeType›)", "map", "map merge", "*parse.fakeNode"},
	{"GetModulesAndSubmodules", "‹map[string]*parse.Tree›", "map", "map to map", "map[string]*parse.Module"},
	{"TEnv.Copy", "‹*parse.TEnv›.syms", "map", "map copy", "*parse.TEnv"},
	{"GEnv.Copy", "‹*parse.GEnv›.syms", "map", "map copy", "*parse.GEnv"},
	{"tree.Paths", "‹*schema.tree›.children", "set", "path list of a schema tree is set-valued", "[]string"},
	{"NewModelSet", "‹map[string]schema.Model›", "map+error", "merges top-level children into a name-keyed map; a clash is an error for either order", "*schema.modelSet"},
	{"node.Paths", "‹*schema.node›.children", "set", "path list is set-valued", "[]string"},
	{"genChildList", "‹map[string]schema.Node›", "set", "the children of a schema node are a set by design (name-keyed map); every consumer looks children up by name or treats the list as unordered", "[]schema.Node"},
	{"genSchemaChildList", "‹map[string]schema.Node›", "set", "same as genChildList", "[]schema.Node"},
	{"node.DefaultChildNames", "‹*schema.node›.defChildren", "set", "set of names", "[]string"},
	{"node.addParentToChildren", "‹*schema.node›.children", "per-element", "sets each child's parent pointer", "*schema.node"},
	{"checkNPContMustsInternal", "‹map[string]schema.Node›", "collect", "collects independent validation results", "*[]*exec.Output;*[]error;*schema.xdatanode;*schema.yangValDebugContext"},
	{"getUnconfiguredNPContainerChildren", "‹map[string]schema.Node›", "collect", "collects children by name", "[]schema.xnode;map[string]schema.Node"},
	{"checkMandatory", "‹map[string]schema.Node›", "error-only", "which missing mandatory node is reported first", "[]error;map[string]schema.xnode"},
	{"checkUnique", "‹map[string][]schema.xnode›", "collect", "collects one error per duplicated unique set; the error list is reported as a whole", "[][]xml.Name;[]error"},
	{"JSONReader.unserializedChildren", "‹map[string]interface{}›", "set", "the members of a JSON object are unordered by definition; list and leaf-list order is taken from JSON arrays (the other arm), not from this map", "[]encoding.unserialized"},
}

// order-sensitive phases: must run over the sorted module order only
var c11OrderedPhases = []string{"expandModule", "processDeviations", "BuildModule"}

func checkC11(w *World, r *Report) {
	r.NotDecided = []string{
		"runtime errors (nil dereference, failed assertion) inside the compiler, which Compiler.recover deliberately re-raises",
		"termination of structural recursion (bounded by the finite parse tree)",
		"that the reviewed 'set-valued' results are compared as sets by every consumer",
	}
	r.Assumptions = []string{"tsort.Sort orders its vertices (Graph.keys sorts) — outside the module"}

	r.Rule("R11.1", "no order leak from map iteration: every range over a map in compile/, parse/, schema/ and data/ is a reviewed site (with the reason its order is unobservable), calls no order-sensitive phase and appends to no new outer slice", 30)
	r.guard("R11.1", func() { c11MapOrder(w, r) })

	r.Rule("R11.2", "order-sensitive phases (grouping/augment expansion, deviations, module build) run in loops over the topologically sorted module names, never inside a map iteration", 3)
	r.guard("R11.2", func() { c11OrderedPhasesRule(w, r) })

	r.Rule("R11.3", "reference-following recursion is guarded against cycles by a path set: tested, inserted before and removed after the recursive descent; the grouping check sees every uses statement the expansion follows; the include-cycle check covers every submodule", 5)
	r.guard("R11.3", func() { c11Recursion(w, r) })

	r.Rule("R11.7", "the import graph is complete: Process(Sub)moduleIncludes merge the unfiltered import statements of every included submodule into the including module (the only source of the submodule's edges in the import cycle check and module ordering)", 6)
	r.guard("R11.7", func() { c11ImportEdges(w, r) })

	r.Rule("R11.8", "every declared feature gets its own verdict, whatever the order in which modules and features are visited: in checkFeatures the verdict of isFeatureValid is recorded for each feature of each module on every iteration (no feature is skipped because an earlier chain already visited it)", 1)
	r.guard("R11.8", func() {
		f := w.SSAFunc(w.Method("compile", "Compiler", "checkFeatures"))
		if f == nil {
			panic(undecided{"Compiler.checkFeatures"})
		}
		found, ok, why := everyIterationCallsDeep(f, func(c ssa.CallInstruction) bool {
			sc := c.Common().StaticCallee()
			return sc != nil && nm(sc) == "set" && sc.Signature.Recv() != nil && strings.Contains(sc.Signature.Recv().Type().String(), "featuresMap")
		}, 0)
		if !found {
			panic(undecided{"checkFeatures: recording of the verdict"})
		}
		r.Check(ok, "R11.8", "checkFeatures records every feature", f.Pos(), "filteredFeatures.set(…) on every iteration of the feature loop", "a feature can be skipped ("+why+"): it is then missing from the verified set — treated as disabled — depending on which module the map iteration visits first")
	})

	r.Rule("R11.12", "a node's position is only ever applied to the text it was taken from: node.useTree — the tree of the module a node was copied into by `uses` — is read by UsesRoot alone (and set by Clone); error locations pair node.pos with node.tree. A position into the defining module's text applied to the using module's text slices out of range, and that run-time error is re-raised by Compiler.recover", 2)
	r.guard("R11.12", func() { c11UseTreeReaders(w, r, "R11.12") })

	r.Rule("R11.9", "the outcome does not depend on what was compiled or parsed before: package-level state of parse/, compile/, schema/ and data/ is never written after initialisation (no memo, pool or table filled at run time), apart from the reviewed debug switch and built-in type environment", 2)
	r.guard("R11.9", func() {
		c06GlobalsIn(w, r, "R11.9", []string{"parse", "compile", "schema", "data/encoding", "data/datanode"})
	})

	r.Rule("R11.10", "a name clash between modules is an error, not a race between them: the store into the name-keyed child map happens only when the name is not present (same obligation as R12.6) — otherwise the module visited last by the map iteration of NewModelSet wins", 2)
	r.guard("R11.10", func() { c12NoOverwriteRule(w, r, "R11.10") })

	r.Rule("R11.11", "the grouping cycle check visits every statement: validateGroupingsWalk calls itself for every child on every iteration (groupings sit below containers that are reached through choices, cases and uses too), so no cycle survives to the unguarded expansion", 1)
	r.guard("R11.11", func() {
		f := w.SSAFunc(w.Method("compile", "Compiler", "validateGroupingsWalk"))
		if f == nil {
			panic(undecided{"Compiler.validateGroupingsWalk"})
		}
		found, ok, why := everyIterationCalls(f, func(c ssa.CallInstruction) bool { return c.Common().StaticCallee() == f })
		if !found {
			panic(undecided{"validateGroupingsWalk: recursive descent"})
		}
		r.Check(ok, "R11.11", "validateGroupingsWalk descends into every child", f.Pos(), "recursive call on every iteration", "some statements are skipped by the cycle check ("+why+"): a grouping cycle below them reaches expandGroupings, which recurses until the stack overflows (not recoverable)")
	})

	r.Rule("R11.6", "no compile error is forgotten: in package compile every error result bound to a variable is examined (the two os.Open calls of the file-system feature scan are reviewed)", 1)
	r.guard("R11.6", func() {
		errRule(w, r, "R11.6", []string{"compile"}, map[string]string{
			"featuresMap.getFeatures: os.Open": "feature directories: a failed Open leaves a nil *os.File whose Readdir returns an error that is tested on the next line",
			"getSystemFeatures: os.Open":       "feature directories: a failed Open leaves a nil *os.File whose Readdir returns an error that is tested on the next line",
		})
	})

	r.Rule("R11.4", "every explicit panic in the compiler carries an error (Compiler.recover asserts e.(error) and re-raises runtime errors)", 5)
	r.guard("R11.4", func() { c11PanicTyping(w, r) })

	r.Rule("R11.5", "the compiler phases called by compileInternal that can raise Compiler.error defer Compiler.recover", 2)
	r.guard("R11.5", func() { c11Recover(w, r) })
}

func c11MapOrder(w *World, r *Report) {
	keys := []string{"compile", "parse", "schema", "data/encoding", "data/datanode"}
	phase := map[string]bool{}
	for _, n := range c11OrderedPhases {
		phase[n] = true
	}
	seen := map[string]bool{}
	for _, key := range keys {
		p := w.Pkg(key)
		for _, fd := range funcDecls(p) {
			if isTestFile(w, fd.Pos()) {
				continue
			}
			// outer-slice appends allowed per function are implied by the reviewed class
			ast.Inspect(fd.Body, func(n ast.Node) bool {
				rs, ok := n.(*ast.RangeStmt)
				if !ok {
					return true
				}
				t := p.TypesInfo.TypeOf(rs.X)
				if t == nil {
					return true
				}
				if _, isMap := t.Underlying().(*types.Map); !isMap {
					return true
				}
				name := funcDeclName(fd)
				expr := types.ExprString(rs.X)
				norm := localFreeExpr(p, rs.X)
				c := fmt.Sprintf("%s: range %s", name, expr)
				carried := carriedInto(p, fd, rs)
				if os.Getenv("YV_DUMP_MAPRANGES") != "" {
					fmt.Printf("MAPRANGE\t%s\t%s\t%s\t%s\n", name, expr, norm, strings.Join(carried, ";"))
				}
				// the table names the function (or the function a helper was split off) and
				// the ranged expression with locals replaced by their types
				names := []string{name}
				if f, ok := p.TypesInfo.Defs[fd.Name].(*types.Func); ok {
					names = w.OwnerNamesOf(f)
				}
				// a table built by a helper of the repository and ranged over at once reads like the local it replaced
				alt := ""
				if ce, isCall := ast.Unparen(rs.X).(*ast.CallExpr); isCall {
					if f := calleeOf(p, ce); f != nil && w.InRepoObj(f) {
						alt = "‹" + types.TypeString(t, func(pk *types.Package) string { return pk.Name() }) + "›"
					}
				}
				var rev *mapRangeReview
				for _, nm := range names {
					for i := range c11MapRanges {
						if rev == nil && c11MapRanges[i].Func == nm && (c11MapRanges[i].Expr == norm || (alt != "" && c11MapRanges[i].Expr == alt)) {
							rev = &c11MapRanges[i]
						}
					}
				}
				// order-sensitive callee inside the body?
				bad := ""
				ast.Inspect(rs.Body, func(x ast.Node) bool {
					if ce, ok := x.(*ast.CallExpr); ok {
						if f := calleeOf(p, ce); f != nil && phase[nm(f)] && w.InRepoObj(f) {
							bad = f.Name()
						}
					}
					return true
				})
				if bad != "" {
					r.Fail("R11.1", c, rs.Pos(), "the order-sensitive phase "+bad+" runs inside a map iteration: the compiled schema (or the verdict) depends on Go's random map order")
					return true
				}
				if rev == nil {
					if cls := autoClassMapRange(p, fd, rs); cls != "" {
						r.OK("R11.1", c, rs.Pos(), "auto: "+cls)
					} else {
						r.Fail("R11.1", c, rs.Pos(), "map iteration in a deterministic phase is neither order-insensitive by shape nor reviewed: its order may leak into the result")
					}
					return true
				}
				// a reviewed site classified map/error-only must not append to an outer slice
				if rev.Class == "map" || rev.Class == "error-only" || rev.Class == "map+error" || rev.Class == "per-element" {
					if s := outerAppend(p, rs); s != "" {
						r.Fail("R11.1", c, rs.Pos(), "reviewed as '"+rev.Class+"' but now appends to the outer slice "+s+" in map order")
						return true
					}
				}
				// nothing new is carried from one iteration to the next
				okCarried := map[string]bool{}
				for _, t := range strings.Split(rev.Carried, ";") {
					okCarried[t] = true
				}
				for _, t := range carried {
					if !okCarried[t] {
						r.Fail("R11.1", c, rs.Pos(), "reviewed as '"+rev.Class+"', but the loop body now works on an object of type "+t+" that lives outside the loop: what one iteration leaves there (a memo, a set of visited names) the next one sees, in Go's random map order")
						return true
					}
				}
				seen[name+"|"+expr] = true
				r.Reviewed("R11.1", c, rs.Pos(), rev.Class+": "+rev.Reason)
				return true
			})
		}
	}
}

// carriedInto: the types of the mutable objects (maps, slices, pointers,
// channels, functions) that live outside the loop — parameters, the receiver,
// locals declared before it — and are mentioned in its body: what one
// iteration can leave behind for the next.
func carriedInto(p *packages.Package, fd *ast.FuncDecl, rs *ast.RangeStmt) []string {
	set := map[string]bool{}
	ast.Inspect(rs.Body, func(x ast.Node) bool {
		id, ok := x.(*ast.Ident)
		if !ok {
			return true
		}
		v, ok := p.TypesInfo.Uses[id].(*types.Var)
		if !ok || v.IsField() || v.Parent() == nil || v.Pkg() == nil || v.Parent() == v.Pkg().Scope() {
			return true
		}
		if rs.Pos() <= v.Pos() && v.Pos() <= rs.End() {
			return true // the loop's own variables and what is declared inside
		}
		switch v.Type().Underlying().(type) {
		case *types.Map, *types.Slice, *types.Pointer, *types.Chan, *types.Signature:
			set[types.TypeString(v.Type(), func(pk *types.Package) string { return pk.Name() })] = true
		}
		return true
	})
	var out []string
	for k := range set {
		out = append(out, k)
	}
	sort.Strings(out)
	return out
}

// outerAppend returns the name of a slice declared outside the loop that the
// body appends to.
func outerAppend(p *packages.Package, rs *ast.RangeStmt) string {
	res := ""
	ast.Inspect(rs.Body, func(x ast.Node) bool {
		as, ok := x.(*ast.AssignStmt)
		if !ok || len(as.Rhs) != 1 {
			return true
		}
		ce, ok := as.Rhs[0].(*ast.CallExpr)
		if !ok {
			return true
		}
		id, ok := ce.Fun.(*ast.Ident)
		if !ok || id.Name != "append" {
			return true
		}
		o := objOfIdent(p, as.Lhs[0])
		if o != nil && !(rs.Body.Pos() <= o.Pos() && o.Pos() <= rs.Body.End()) {
			res = o.Name()
		}
		return true
	})
	return res
}

// autoClassMapRange recognises bodies that only copy into another map, or
// collect keys that are sorted right after the loop.
func autoClassMapRange(p *packages.Package, fd *ast.FuncDecl, rs *ast.RangeStmt) string {
	onlyMapStores := true
	for _, s := range rs.Body.List {
		as, ok := s.(*ast.AssignStmt)
		if !ok {
			onlyMapStores = false
			break
		}
		for _, l := range as.Lhs {
			ix, ok := l.(*ast.IndexExpr)
			if !ok {
				onlyMapStores = false
				break
			}
			if t := p.TypesInfo.TypeOf(ix.X); t == nil {
				onlyMapStores = false
			} else if _, isMap := t.Underlying().(*types.Map); !isMap {
				onlyMapStores = false
			}
		}
		for _, rh := range as.Rhs {
			if len(callsIn(p, rh)) > 0 {
				onlyMapStores = false
			}
		}
	}
	if onlyMapStores && len(rs.Body.List) > 0 {
		return "body only stores into maps"
	}
	// collect then sort
	if s := outerAppend(p, rs); s != "" && len(rs.Body.List) == 1 {
		sorted := false
		after := false
		ast.Inspect(fd.Body, func(x ast.Node) bool {
			if x == ast.Node(rs) {
				after = true
				return false
			}
			if ce, ok := x.(*ast.CallExpr); ok && after {
				if f := calleeOf(p, ce); f != nil && (f.FullName() == "sort.Strings" || f.FullName() == "slices.Sort" || f.FullName() == "sort.Slice") {
					if o := objOfIdent(p, ce.Args[0]); o != nil && o.Name() == s {
						sorted = true
					}
				}
			}
			return true
		})
		if sorted {
			return "collects into " + s + ", sorted after the loop"
		}
	}
	return ""
}

func c11OrderedPhasesRule(w *World, r *Report) {
	p := w.Pkg("compile")
	modnames := w.Field("compile", "Compiler", "modnames")
	sp := w.SSAPkg("compile")
	fns := allFuncs(sp)
	isModnames := func(v ssa.Value) bool {
		u, ok := v.(*ssa.UnOp)
		if !ok || u.Op != token.MUL {
			return false
		}
		fa, ok := u.X.(*ssa.FieldAddr)
		if !ok {
			return false
		}
		pt, _ := fa.X.Type().Underlying().(*types.Pointer)
		if pt == nil {
			return false
		}
		st, _ := pt.Elem().Underlying().(*types.Struct)
		return st != nil && st.Field(fa.Field) == modnames
	}
	type site struct {
		g  *ssa.Function
		in ssa.Instruction
	}
	for _, ph := range c11OrderedPhases {
		fo := w.Method("compile", "Compiler", ph)
		f := w.SSAFunc(fo)
		is := func(h *ssa.Function) bool {
			return h != nil && (h == f || (h.Synthetic != "" && h.Object() != nil && h.Object() == types.Object(fo)))
		}
		// the places that run the phase: a call of it, or the call of a
		// function-valued parameter that was handed the phase
		var sites []site
		for _, g := range fns {
			if isTestFile(w, g.Pos()) {
				continue
			}
			for _, bl := range g.Blocks {
				for _, in := range bl.Instrs {
					ci, ok := in.(ssa.CallInstruction)
					if !ok {
						continue
					}
					cc := ci.Common()
					direct := is(cc.StaticCallee())
					if !direct && cc.StaticCallee() == nil && !cc.IsInvoke() {
						for _, h := range funcValues(cc.Value, 0) {
							direct = direct || is(h)
						}
					}
					if direct {
						sites = append(sites, site{g, in})
						continue
					}
					h := cc.StaticCallee()
					if h == nil || h.Blocks == nil {
						continue
					}
					for k, a := range cc.Args {
						handed := false
						for _, fv := range funcValues(a, 0) {
							handed = handed || is(fv)
						}
						if !handed || k >= len(h.Params) {
							continue
						}
						found := false
						for _, hb := range h.Blocks {
							for _, hin := range hb.Instrs {
								if hc, ok := hin.(ssa.CallInstruction); ok && hc.Common().Value == ssa.Value(h.Params[k]) {
									sites = append(sites, site{h, hin})
									found = true
								}
							}
						}
						if !found {
							r.Fail("R11.2", fmt.Sprintf("%s handed to %s", ph, h.Name()), in.Pos(), "where the phase handed over as a value is run was not determined")
						}
					}
				}
			}
		}
		for _, st := range sites {
			inSorted, inMap := false, false
			for _, l := range ssaLoops(st.g) {
				body := l.body()
				if !body[st.in.Block()] {
					continue
				}
				for bl := range body {
					for _, in := range bl.Instrs {
						switch x := in.(type) {
						case *ssa.IndexAddr:
							if isModnames(x.X) {
								inSorted = true
							}
						case *ssa.Next:
							if rg, ok := x.Iter.(*ssa.Range); ok {
								if _, isMap := rg.X.Type().Underlying().(*types.Map); isMap {
									inMap = true
								}
							}
						}
					}
				}
			}
			r.Check(inSorted && !inMap, "R11.2", fmt.Sprintf("%s run in %s", ph, st.g.Name()), st.in.Pos(), "inside a loop over c.modnames, not under a map range",
				"the order-sensitive phase "+ph+" is not driven by the sorted module order (c.modnames): uses/augment/deviation application order — and with it the verdict and the schema — varies from run to run")
		}
		if len(sites) == 0 {
			r.Fail("R11.2", ph+" call sites", token.NoPos, "phase is never called")
		}
	}
	// modnames is the sorter's output
	ok := false
	for _, fd := range funcDecls(p) {
		for _, a := range assignsToField(p, fd.Body, modnames) {
			if as, isA := a.(*ast.AssignStmt); isA && len(as.Rhs) == 1 {
				if ce, isC := as.Rhs[0].(*ast.CallExpr); isC {
					if f := calleeOf(p, ce); f != nil && nm(f) == "Sort" && strings.Contains(f.FullName(), "tsort") {
						ok = true
					}
				}
			}
		}
	}
	r.Check(ok, "R11.2", "Compiler.modnames", token.NoPos, "= tsort Sort() of the import graph", "the module order is no longer the topological sort of the import graph")
}

func c11Recursion(w *World, r *Report) {
	p := w.Pkg("compile")
	// path-set discipline
	for _, c := range []struct {
		fn     string
		setIdx int // parameter index of the visited map
	}{{"isFeatureValid", 2}, {"validateGrouping", 2}} {
		f := w.Method("compile", "Compiler", c.fn)
		fd, _ := w.FuncDecl(f)
		sf := recursionCarrier(w.SSAFunc(f))
		g := ssaCycleGuard(w, sf, func(call *ssa.Call) bool { return call.Call.StaticCallee() == sf })
		testIdx, insIdx, recIdx, delIdx := -1, -1, -1, -1
		if g.tested {
			testIdx = 0
		}
		if g.inserted {
			insIdx = 1
		}
		if g.rec {
			recIdx = 2
		}
		if g.pruned {
			delIdx = 3
		}
		r.Check(testIdx >= 0 && insIdx > testIdx && recIdx > insIdx, "R11.3", c.fn+" cycle guard", fd.Pos(), "visited set tested, then inserted, before the recursive call",
			"reference-following recursion without a test-then-insert guard before the recursive call: a reference cycle recurses until the stack overflows")
		r.Check(delIdx > recIdx && recIdx >= 0, "R11.3", c.fn+" guard is a path set", fd.Pos(), "entry removed after the descent",
			"the visited set is never pruned on the way back, so two reference chains that meet in the same node are reported as a cycle (a valid module set is rejected)")
	}
	// typedef chain: BuildBaseType → BuildType recursion needs an in-progress set
	bbt := w.Method("compile", "Compiler", "BuildBaseType")
	bfd, _ := w.FuncDecl(bbt)
	bt := w.Method("compile", "Compiler", "BuildType")
	bg := ssaCycleGuard(w, w.SSAFunc(bbt), func(call *ssa.Call) bool {
		return call.Call.StaticCallee() != nil && call.Call.StaticCallee().Object() == types.Object(bt)
	})
	if bf := w.SSAFunc(bbt); bf != nil && bg.rec && !(bg.tested && bg.inserted) {
		// the test-then-insert half of the guard in a helper called ahead of the descent; the removal stays here
		var descents []*ssa.Call
		for _, b := range bf.Blocks {
			for _, in := range b.Instrs {
				if c, ok := in.(*ssa.Call); ok && c.Call.StaticCallee() != nil && c.Call.StaticCallee().Object() == types.Object(bt) {
					descents = append(descents, c)
				}
			}
		}
		for _, b := range bf.Blocks {
			for _, in := range b.Instrs {
				c, ok := in.(*ssa.Call)
				if !ok {
					continue
				}
				h := c.Call.StaticCallee()
				if h == nil || h.Blocks == nil || h.Pkg != bf.Pkg || h == bf || len(ssaLoops(h)) > 0 {
					continue
				}
				ahead := len(descents) > 0
				for _, d := range descents {
					ahead = ahead && (c.Block() == d.Block() && indexIn(c.Block(), c) < indexIn(d.Block(), d) || c.Block() != d.Block() && c.Block().Dominates(d.Block()))
				}
				if !ahead {
					continue
				}
				if hg := ssaCycleGuard(w, h, nil); hg.tested && hg.inserted {
					bg.tested, bg.inserted = true, true
					// removed here: a (deferred) delete on a map field of the compiler
					for _, b2 := range bf.Blocks {
						for _, in2 := range b2.Instrs {
							if d, isD := in2.(*ssa.Defer); isD {
								if bi, isB := d.Call.Value.(*ssa.Builtin); isB && bi.Name() == "delete" {
									bg.pruned = true
								}
							}
							if dc, isC := in2.(*ssa.Call); isC {
								if bi, isB := dc.Call.Value.(*ssa.Builtin); isB && bi.Name() == "delete" {
									bg.pruned = true
								}
							}
						}
					}
				}
			}
		}
	}
	recurses := bg.rec
	inProg := bg.tested && bg.inserted && bg.pruned
	r.Check(recurses && inProg, "R11.3", "BuildBaseType typedef chain guard", bfd.Pos(), "in-progress set tested, inserted, removed around the descent into the typedef's type",
		"the typedef chain is followed (LookupType → BuildType) without remembering which typedefs are being resolved: `typedef a { type a; }` recurses until the process aborts with a stack overflow")
	// validateGrouping enumerates uses through a recursive walk
	vg := w.Method("compile", "Compiler", "validateGrouping")
	vfd, _ := w.FuncDecl(vg)
	transitive := false
	walkFd := vfd
	if carrier := recursionCarrier(w.SSAFunc(vg)); carrier != nil {
		if o, ok := carrier.Object().(*types.Func); ok {
			if cfd, cp := w.FuncDecl(o); cfd != nil && cp == p {
				walkFd = cfd
			}
		}
	}
	ast.Inspect(walkFd.Body, func(x ast.Node) bool {
		rs, ok := x.(*ast.RangeStmt)
		if !ok {
			return true
		}
		ce, ok := rs.X.(*ast.CallExpr)
		if !ok {
			return true
		}
		f := calleeOf(p, ce)
		if f == nil || !w.InRepoObj(f) || f.Pkg().Path() != modPath+"/compile" {
			return true
		}
		// helper must be self-recursive and walk Children()
		hfd, hp := w.FuncDecl(f)
		rec := len(allCallsTo(hp, hfd.Body, f)) > 0
		walks := false
		ast.Inspect(hfd.Body, func(y ast.Node) bool {
			if c2, ok := y.(*ast.CallExpr); ok {
				if g := calleeOf(hp, c2); g != nil && nm(g) == "Children" {
					walks = true
				}
			}
			return true
		})
		if rec && walks {
			transitive = true
		}
		return true
	})
	r.Check(transitive, "R11.3", "validateGrouping sees nested uses", vfd.Pos(), "uses statements are enumerated by a recursive walk over Children()",
		"the cycle check looks only at uses statements that are direct children of a grouping while expansion follows uses at any depth: `grouping g { container c { uses g; } }` passes the check and overflows the stack during expansion")
	// include cycles: the graph handed to the sorter covers every submodule of the module
	vmi := w.Method("compile", "Compiler", "VerifyModuleIncludes")
	ifd, _ := w.FuncDecl(vmi)
	covers := false
	if vf := w.SSAFunc(vmi); vf != nil && len(vf.Params) == 3 {
		subs := vf.Params[2]
		// the loop over the submodules handed in: every iteration collects that submodule's includes (asks for
		// its include statements, here or in a helper that adds the edges)
		for _, l := range ssaLoops(vf) {
			overSubs := false
			for _, in := range l.Header.Instrs {
				if nx, ok := in.(*ssa.Next); ok {
					if rg, ok := nx.Iter.(*ssa.Range); ok && rg.X == ssa.Value(subs) {
						overSubs = true
					}
				}
			}
			if !overSubs {
				continue
			}
			body := l.body()
			for bl := range body {
				for _, in := range bl.Instrs {
					c, ok := in.(*ssa.Call)
					if !ok {
						continue
					}
					collects := c.Call.IsInvoke() && nm(c.Call.Method) == "ChildrenByType"
					if g := c.Call.StaticCallee(); g != nil && g.Blocks != nil {
						for h := range calleesDeep(g, 2) {
							if nm(h) == "AddEdge" {
								collects = true
							}
						}
					}
					if !collects {
						continue
					}
					every := true
					for _, lt := range l.Latches {
						if !bl.Dominates(lt) {
							// a latch of an inner loop that the collecting block itself dominates is fine
							every = false
						}
					}
					// the collecting call may sit before an inner loop whose latch is also a predecessor of this header? no: inner latches belong to the inner header
					if every {
						covers = true
					}
				}
			}
		}
	}
	r.Check(covers, "R11.3", "VerifyModuleIncludes covers every submodule", ifd.Pos(), "range over all submodules of the module, adding each one's include edges",
		"the include graph handed to the cycle check no longer contains the includes of every submodule: a cycle among transitively included submodules is accepted (and a grouping cycle across them overflows the stack)")
	// identities: tree by construction (base 0..1), reviewed
	r.Reviewed("R11.3", "identityCheckCyclicRef", token.NoPos, "visited set is not pruned, but RFC 6020 allows one base per identity (R09.1: identity/base 0..1), so the derived-identity graph below any identity is a tree or contains a cycle")
}

func c11PanicTyping(w *World, r *Report) {
	p := w.Pkg("compile")
	errT := types.Universe.Lookup("error").Type().Underlying().(*types.Interface)
	n := 0
	for _, fd := range funcDecls(p) {
		if isTestFile(w, fd.Pos()) {
			continue
		}
		ast.Inspect(fd.Body, func(x ast.Node) bool {
			ce, ok := x.(*ast.CallExpr)
			if !ok {
				return true
			}
			id, ok := ce.Fun.(*ast.Ident)
			if !ok || id.Name != "panic" {
				return true
			}
			if _, isB := p.TypesInfo.Uses[id].(*types.Builtin); !isB {
				return true
			}
			n++
			t := p.TypesInfo.TypeOf(ce.Args[0])
			isErr := t != nil && types.Implements(t, errT)
			if funcDeclName(fd) == "Compiler.recover" {
				isErr = true // re-raise of the recovered value
			}
			r.Check(isErr, "R11.4", fmt.Sprintf("panic in %s: %s", funcDeclName(fd), strings.SplitN(types.ExprString(ce.Args[0]), "(", 2)[0]), ce.Pos(), "value implements error",
				fmt.Sprintf("panic value of type %v does not implement error: Compiler.recover's e.(error) would itself panic and the compile would crash instead of returning an error", t))
			return true
		})
	}
	if n == 0 {
		r.Fail("R11.4", "explicit panics", token.NoPos, "none found")
	}
}

func c11Recover(w *World, r *Report) {
	p := w.Pkg("compile")
	ci := w.Func("compile", "compileInternal")
	cfd, _ := w.FuncDecl(ci)
	rec := w.Method("compile", "Compiler", "recover")
	cerr := w.Method("compile", "Compiler", "error")
	// methods of *Compiler called from compileInternal
	var phases []*types.Func
	ast.Inspect(cfd.Body, func(x ast.Node) bool {
		if ce, ok := x.(*ast.CallExpr); ok {
			if f := calleeOf(p, ce); f != nil && recvNamed(f) == "Compiler" && f.Exported() {
				phases = append(phases, f)
			}
		}
		return true
	})
	sort.Slice(phases, func(i, j int) bool { return phases[i].Name() < phases[j].Name() })
	// can the phase reach c.error or an explicit panic? (static closure inside package compile)
	for _, f := range phases {
		cone := staticCone(w, []string{"compile"}, []*types.Func{f}, false)
		reaches := false
		for g, gd := range cone {
			if g == cerr {
				reaches = true
			}
			ast.Inspect(gd.Body, func(x ast.Node) bool {
				if ce, ok := x.(*ast.CallExpr); ok {
					if id, ok := ce.Fun.(*ast.Ident); ok && id.Name == "panic" {
						reaches = true
					}
				}
				return true
			})
		}
		if !reaches {
			continue
		}
		fd, _ := w.FuncDecl(f)
		deferred := false
		for _, s := range fd.Body.List {
			if ds, ok := s.(*ast.DeferStmt); ok && calleeOf(p, ds.Call) == rec {
				deferred = true
			}
		}
		r.Check(deferred, "R11.5", "Compiler."+f.Name(), fd.Pos(), "defers c.recover(&err)", "this phase can raise Compiler.error but does not defer Compiler.recover: the error escapes as a panic")
	}
}

type cycleGuard struct {
	rec      bool // a recursive descent exists
	tested   bool // a set is looked up and a hit leads to an error exit, on the way to ...
	inserted bool // ... the insertion into that set, which comes before the descent
	pruned   bool // and the entry is removed again after the descent (or in a deferred call)
}

// ssaCycleGuard finds, by dominance, the test-then-insert discipline of a set
// (a map) around the recursive call(s) selected by isRec, whatever the
// arrangement of the statements (guard clauses, else branches, helpers are
// not followed).
func ssaCycleGuard(w *World, f *ssa.Function, isRec func(*ssa.Call) bool) cycleGuard {
	var g cycleGuard
	if f == nil {
		return g
	}
	cerr := w.Method("compile", "Compiler", "error")
	// identity of a map operand: the field, parameter or local it is read from
	ident := func(v ssa.Value) string {
		switch x := v.(type) {
		case *ssa.UnOp:
			if fa, ok := x.X.(*ssa.FieldAddr); ok {
				st := fa.X.Type().Underlying().(*types.Pointer).Elem().Underlying().(*types.Struct)
				return "field:" + st.Field(fa.Field).Name()
			}
			if a, ok := x.X.(*ssa.Alloc); ok {
				return "local:" + a.Comment
			}
		case *ssa.Parameter:
			return "param:" + x.Name()
		case *ssa.Phi:
			return "local:" + x.Comment
		}
		return v.Name()
	}
	var recs []ssa.Instruction
	for _, b := range f.Blocks {
		for _, in := range b.Instrs {
			if isRec == nil {
				// a guard helper: "the descent" is its return to the caller
				if ret, ok := in.(*ssa.Return); ok {
					recs = append(recs, ret)
				}
				continue
			}
			if c, ok := in.(*ssa.Call); ok && isRec(c) {
				recs = append(recs, c)
			}
		}
	}
	g.rec = len(recs) > 0
	if !g.rec {
		return g
	}
	before := func(a, b ssa.Instruction) bool { // a executes before b on every path to b
		if a.Block() == b.Block() {
			for _, in := range a.Block().Instrs {
				if in == a {
					return true
				}
				if in == b {
					return false
				}
			}
		}
		return a.Block().Dominates(b.Block())
	}
	errorExit := func(b *ssa.BasicBlock) bool {
		for _, eb := range f.Blocks {
			if !b.Dominates(eb) {
				continue
			}
			for _, in := range eb.Instrs {
				switch x := in.(type) {
				case ssa.CallInstruction:
					if sc := x.Common().StaticCallee(); sc != nil && sc.Object() == types.Object(cerr) {
						return true
					}
				case *ssa.Return:
					for _, rv := range x.Results {
						if _, isErr := rv.Type().Underlying().(*types.Interface); isErr && rv.Type().String() == "error" && !isNilConst(rv) {
							return true
						}
					}
				case *ssa.Panic:
					return true
				}
			}
		}
		return false
	}
	for _, b := range f.Blocks {
		for _, in := range b.Instrs {
			mu, ok := in.(*ssa.MapUpdate)
			if !ok {
				continue
			}
			id := ident(mu.Map)
			// inserted before every descent
			insOK := true
			for _, rc := range recs {
				if !before(mu, rc) {
					insOK = false
				}
			}
			if !insOK {
				continue
			}
			// tested before the insertion, a hit leading to an error exit
			tested := false
			for _, b2 := range f.Blocks {
				for _, in2 := range b2.Instrs {
					lk, ok := in2.(*ssa.Lookup)
					if !ok || ident(lk.X) != id || !before(lk, mu) {
						continue
					}
					// the value (or ok) decides an If one of whose branches is an error exit
					var vals []ssa.Value
					vals = append(vals, lk)
					for _, ref := range *lk.Referrers() {
						if ex, ok := ref.(*ssa.Extract); ok {
							vals = append(vals, ex)
						}
					}
					for _, v := range vals {
						for _, ref := range *v.Referrers() {
							iff, ok := ref.(*ssa.If)
							if !ok {
								if u, isNot := ref.(*ssa.UnOp); isNot && u.Op == token.NOT {
									for _, r2 := range *u.Referrers() {
										if i2, ok := r2.(*ssa.If); ok {
											iff = i2
										}
									}
								}
							}
							if iff == nil {
								continue
							}
							for _, succ := range iff.Block().Succs {
								if len(succ.Preds) == 1 && errorExit(succ) {
									tested = true
								}
							}
						}
					}
				}
			}
			// removed after the descent, or by a deferred call
			pruned := false
			for _, b2 := range f.Blocks {
				for _, in2 := range b2.Instrs {
					switch x := in2.(type) {
					case *ssa.Call:
						if bi, ok := x.Call.Value.(*ssa.Builtin); ok && bi.Name() == "delete" && len(x.Call.Args) == 2 && ident(x.Call.Args[0]) == id {
							// after the insertion and not ahead of a descent (the descent may sit in a loop that runs zero times)
							okDel := before(mu, x)
							for _, rc := range recs {
								if before(x, rc) {
									okDel = false
								}
							}
							if okDel {
								pruned = true
							}
						}
					case *ssa.Defer:
						if bi, ok := x.Call.Value.(*ssa.Builtin); ok && bi.Name() == "delete" && len(x.Call.Args) == 2 && ident(x.Call.Args[0]) == id {
							pruned = true
						}
						if mc, ok := x.Call.Value.(*ssa.MakeClosure); ok {
							for _, cb := range mc.Fn.(*ssa.Function).Blocks {
								for _, ci := range cb.Instrs {
									if dc, ok := ci.(*ssa.Call); ok {
										if bi, ok := dc.Call.Value.(*ssa.Builtin); ok && bi.Name() == "delete" {
											pruned = true
										}
									}
								}
							}
						}
					}
				}
			}
			g.inserted = true
			g.tested = g.tested || tested
			g.pruned = g.pruned || pruned
		}
	}
	return g
}

// c11UseTreeReaders (R11.12 / R15.14): node.useTree is read by UsesRoot alone and written by Clone alone.
func c11UseTreeReaders(w *World, r *Report, rule string) {
	useTree := w.Field("parse", "node", "useTree")
	readers, writers := map[string]bool{}, map[string]bool{}
	for _, f := range allFuncs(w.SSAPkg("parse")) {
		if isTestFile(w, f.Pos()) {
			continue
		}
		for _, b := range f.Blocks {
			for _, in := range b.Instrs {
				fa, ok := in.(*ssa.FieldAddr)
				if !ok || !isFieldAddrOf(fa, useTree) {
					continue
				}
				for _, ref := range *fa.Referrers() {
					switch x := ref.(type) {
					case *ssa.Store:
						if x.Addr == ssa.Value(fa) {
							writers[nm(w.OwnerChain(f)[len(w.OwnerChain(f))-1])] = true
							continue
						}
						readers[funcKey(f)] = true
					default:
						readers[nm(w.OwnerChain(f)[len(w.OwnerChain(f))-1])] = true
					}
				}
			}
		}
	}
	var rs, ws []string
	for k := range readers {
		rs = append(rs, k)
	}
	for k := range writers {
		ws = append(ws, k)
	}
	sort.Strings(rs)
	sort.Strings(ws)
	r.Check(strings.Join(rs, ",") == "UsesRoot", rule, "readers of node.useTree", token.NoPos, strings.Join(rs, ","), "node.useTree is read by {"+strings.Join(rs, ",")+"}, not by UsesRoot alone: something other than re-homing of references depends on the using module — e.g. an error location built from the using module's text and the defining module's offset")
	r.Check(strings.Join(ws, ",") == "Clone", rule, "writers of node.useTree", token.NoPos, strings.Join(ws, ","), "node.useTree is written by {"+strings.Join(ws, ",")+"}, not by Clone alone")
}

// recursionCarrier: f when it calls itself; otherwise the one function of
// f's package, among those f reaches through static calls (two levels), that
// calls itself — the recursion of f moved into a helper or a method of a
// small state struct (the nearest level that has exactly one).  f itself
// when there is no such function.
func recursionCarrier(f *ssa.Function) *ssa.Function {
	if f == nil {
		return nil
	}
	selfRec := func(g *ssa.Function) bool {
		for _, b := range g.Blocks {
			for _, in := range b.Instrs {
				if c, ok := in.(ssa.CallInstruction); ok && c.Common().StaticCallee() == g {
					return true
				}
			}
		}
		return false
	}
	if selfRec(f) {
		return f
	}
	// nearest first: the functions f calls itself, then those they call
	for depth := 0; depth <= 1; depth++ {
		var found []*ssa.Function
		for g := range calleesDeep(f, depth) {
			if g.Blocks != nil && g.Pkg == f.Pkg && g != f && selfRec(g) {
				found = append(found, g)
			}
		}
		if len(found) == 1 {
			return found[0]
		}
		if len(found) > 1 {
			break
		}
	}
	return f
}

func indexIn(b *ssa.BasicBlock, in ssa.Instruction) int {
	for i, x := range b.Instrs {
		if x == in {
			return i
		}
	}
	return -1
}

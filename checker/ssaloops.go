package main

import (
	"go/constant"
	"go/token"

	"golang.org/x/tools/go/ssa"
)

// ssaLoop is a natural loop of an SSA function: a header block and the
// predecessors of the header that the header dominates (latches).
type ssaLoop struct {
	Header  *ssa.BasicBlock
	Latches []*ssa.BasicBlock
	Entries []*ssa.BasicBlock // predecessors from outside the loop
}

func ssaLoops(f *ssa.Function) []ssaLoop {
	var out []ssaLoop
	for _, b := range f.Blocks {
		var l ssaLoop
		for _, p := range b.Preds {
			if b.Dominates(p) {
				l.Latches = append(l.Latches, p)
			} else {
				l.Entries = append(l.Entries, p)
			}
		}
		if len(l.Latches) > 0 {
			l.Header = b
			out = append(out, l)
		}
	}
	return out
}

// body returns the blocks of the loop (those dominated by the header from
// which a latch is reachable without leaving through the header).
func (l ssaLoop) body() map[*ssa.BasicBlock]bool {
	in := map[*ssa.BasicBlock]bool{l.Header: true}
	var work []*ssa.BasicBlock
	for _, x := range l.Latches {
		if !in[x] {
			in[x] = true
			work = append(work, x)
		}
	}
	for len(work) > 0 {
		b := work[len(work)-1]
		work = work[:len(work)-1]
		for _, p := range b.Preds {
			if !in[p] {
				in[p] = true
				work = append(work, p)
			}
		}
	}
	return in
}

// phiEdge returns the incoming value of phi for predecessor block pred.
func phiEdge(phi *ssa.Phi, pred *ssa.BasicBlock) ssa.Value {
	for i, p := range phi.Block().Preds {
		if p == pred {
			return phi.Edges[i]
		}
	}
	return nil
}

// phiLeaves follows phis from v and reports the non-phi leaves; self is set
// when the walk reaches stop again (the value is carried over unchanged).
func phiLeaves(v ssa.Value, stop *ssa.Phi, seen map[ssa.Value]bool, leaves *[]ssa.Value, self *bool) {
	if seen[v] {
		return
	}
	seen[v] = true
	if x, ok := v.(*ssa.Phi); ok {
		if x == stop {
			*self = true
			return
		}
		for _, e := range x.Edges {
			phiLeaves(e, stop, seen, leaves, self)
		}
		return
	}
	*leaves = append(*leaves, v)
}

// loopCarriedIndependent decides whether the value of a loop-header phi at
// the start of an iteration is independent of what earlier iterations
// computed: either every back-edge value is a constant on every path (the
// value depends at most on the iteration count), or the variable may also
// be carried over unchanged but then all its constants, the entry value
// included, are one and the same.
func loopCarriedIndependent(phi *ssa.Phi, l ssaLoop) bool {
	var leaves []ssa.Value
	self := false
	for _, lt := range l.Latches {
		phiLeaves(phiEdge(phi, lt), phi, map[ssa.Value]bool{}, &leaves, &self)
	}
	for _, v := range leaves {
		if _, ok := v.(*ssa.Const); !ok {
			return false
		}
	}
	if !self {
		return true
	}
	for _, e := range l.Entries {
		leaves = append(leaves, phiEdge(phi, e))
	}
	var first *ssa.Const
	for _, v := range leaves {
		c, ok := v.(*ssa.Const)
		if !ok {
			return false
		}
		if first == nil {
			first = c
		} else if !(c.Value == nil && first.Value == nil) && (c.Value == nil || first.Value == nil || !constant.Compare(c.Value, token.EQL, first.Value)) {
			return false
		}
	}
	return true
}

package main

import (
	"go/constant"
	"go/token"
	"strings"

	"golang.org/x/tools/go/ssa"
)

// ssaLoop is a natural loop of an SSA function: a header block and the
// predecessors of the header that the header dominates (latches).
type ssaLoop struct {
	Header  *ssa.BasicBlock
	Latches []*ssa.BasicBlock
	Entries []*ssa.BasicBlock // predecessors from outside the loop
}

func ssaLoops(f *ssa.Function) []ssaLoop {
	var out []ssaLoop
	for _, b := range f.Blocks {
		var l ssaLoop
		for _, p := range b.Preds {
			if b.Dominates(p) {
				l.Latches = append(l.Latches, p)
			} else {
				l.Entries = append(l.Entries, p)
			}
		}
		if len(l.Latches) > 0 {
			l.Header = b
			out = append(out, l)
		}
	}
	return out
}

// body returns the blocks of the loop (those dominated by the header from
// which a latch is reachable without leaving through the header).
func (l ssaLoop) body() map[*ssa.BasicBlock]bool {
	in := map[*ssa.BasicBlock]bool{l.Header: true}
	var work []*ssa.BasicBlock
	for _, x := range l.Latches {
		if !in[x] {
			in[x] = true
			work = append(work, x)
		}
	}
	for len(work) > 0 {
		b := work[len(work)-1]
		work = work[:len(work)-1]
		for _, p := range b.Preds {
			if !in[p] {
				in[p] = true
				work = append(work, p)
			}
		}
	}
	return in
}

// phiEdge returns the incoming value of phi for predecessor block pred.
func phiEdge(phi *ssa.Phi, pred *ssa.BasicBlock) ssa.Value {
	for i, p := range phi.Block().Preds {
		if p == pred {
			return phi.Edges[i]
		}
	}
	return nil
}

// phiLeaves follows phis from v and reports the non-phi leaves; self is set
// when the walk reaches stop again (the value is carried over unchanged).
func phiLeaves(v ssa.Value, stop *ssa.Phi, seen map[ssa.Value]bool, leaves *[]ssa.Value, self *bool) {
	if seen[v] {
		return
	}
	seen[v] = true
	if x, ok := v.(*ssa.Phi); ok {
		if x == stop {
			*self = true
			return
		}
		for _, e := range x.Edges {
			phiLeaves(e, stop, seen, leaves, self)
		}
		return
	}
	*leaves = append(*leaves, v)
}

// loopCarriedIndependent decides whether the value of a loop-header phi at
// the start of an iteration is independent of what earlier iterations
// computed: either every back-edge value is a constant on every path (the
// value depends at most on the iteration count), or the variable may also
// be carried over unchanged but then all its constants, the entry value
// included, are one and the same.
func loopCarriedIndependent(phi *ssa.Phi, l ssaLoop) bool {
	var leaves []ssa.Value
	self := false
	for _, lt := range l.Latches {
		phiLeaves(phiEdge(phi, lt), phi, map[ssa.Value]bool{}, &leaves, &self)
	}
	for _, v := range leaves {
		if _, ok := v.(*ssa.Const); !ok {
			return false
		}
	}
	if !self {
		return true
	}
	for _, e := range l.Entries {
		leaves = append(leaves, phiEdge(phi, e))
	}
	var first *ssa.Const
	for _, v := range leaves {
		c, ok := v.(*ssa.Const)
		if !ok {
			return false
		}
		if first == nil {
			first = c
		} else if !(c.Value == nil && first.Value == nil) && (c.Value == nil || first.Value == nil || !constant.Compare(c.Value, token.EQL, first.Value)) {
			return false
		}
	}
	return true
}

// everyIterationAppends: in function f, for each loop whose body contains a
// call satisfying produces(), the append of (something derived from) that
// call's result dominates every latch of the loop: no element is skipped.
// Returns (found, ok, detail).
func everyIterationAppends(f *ssa.Function, produces func(c *ssa.Call) bool) (bool, bool, string) {
	for _, l := range ssaLoops(f) {
		body := l.body()
		var prod *ssa.Call
		for b := range body {
			for _, in := range b.Instrs {
				if c, ok := in.(*ssa.Call); ok && produces(c) {
					prod = c
				}
			}
		}
		if prod == nil {
			continue
		}
		// appends in the body that take the produced value
		var appBlocks []*ssa.BasicBlock
		for b := range body {
			for _, in := range b.Instrs {
				c, ok := in.(*ssa.Call)
				if !ok {
					continue
				}
				if bi, ok := c.Call.Value.(*ssa.Builtin); !ok || nm(bi) != "append" {
					continue
				}
				// the variadic slice is built from an Alloc whose element store takes prod (possibly via MakeInterface/Extract)
				if sl, ok := c.Call.Args[1].(*ssa.Slice); ok {
					if al, ok := sl.X.(*ssa.Alloc); ok {
						for _, ref := range *al.Referrers() {
							ia, ok := ref.(*ssa.IndexAddr)
							if !ok {
								continue
							}
							for _, r2 := range *ia.Referrers() {
								st, ok := r2.(*ssa.Store)
								if !ok {
									continue
								}
								v := st.Val
								for {
									switch x := v.(type) {
									case *ssa.MakeInterface:
										v = x.X
										continue
									case *ssa.ChangeInterface:
										v = x.X
										continue
									case *ssa.Extract:
										v = x.Tuple
										continue
									}
									break
								}
								if v == ssa.Value(prod) {
									appBlocks = append(appBlocks, b)
								}
							}
						}
					}
				}
			}
		}
		if len(appBlocks) == 0 {
			return true, false, "the produced value is not appended inside the loop"
		}
		for _, lt := range l.Latches {
			dom := false
			for _, a := range appBlocks {
				if a.Dominates(lt) {
					dom = true
				}
			}
			if !dom {
				return true, false, "the loop head is re-entered from block " + lt.Comment + " without the append"
			}
		}
		return true, true, ""
	}
	return false, false, "loop not found"
}

// everyIterationCalls: the innermost loop of f that contains a call satisfying
// pred executes that call on every iteration (its block dominates every latch).
func everyIterationCalls(f *ssa.Function, pred func(c ssa.CallInstruction) bool) (found, ok bool, why string) {
	var best *ssaLoop
	var callBlock *ssa.BasicBlock
	loops := ssaLoops(f)
	for i := range loops {
		body := loops[i].body()
		for b := range body {
			for _, in := range b.Instrs {
				if c, isC := in.(ssa.CallInstruction); isC && pred(c) {
					if best == nil || len(body) < len(best.body()) {
						best = &loops[i]
						callBlock = b
					}
				}
			}
		}
	}
	if best == nil {
		return false, false, "no loop contains the call"
	}
	for _, lt := range best.Latches {
		if !callBlock.Dominates(lt) {
			return true, false, "the loop head is re-entered from block " + lt.Comment + " without the call"
		}
	}
	return true, true, ""
}

// everyIterationCallsDeep is everyIterationCalls that also looks into the
// functions of the module f calls (two levels): the loop may have been moved
// into a helper, which f must then call on every iteration of its own loop
// (when it calls it from one).
func everyIterationCallsDeep(f *ssa.Function, pred func(c ssa.CallInstruction) bool, depth int) (found, ok bool, why string) {
	if found, ok, why = everyIterationCalls(f, pred); found || depth >= 2 {
		return
	}
	for _, b := range f.Blocks {
		for _, in := range b.Instrs {
			c, isC := in.(ssa.CallInstruction)
			if !isC {
				continue
			}
			g := c.Common().StaticCallee()
			if g == nil || g == f || g.Blocks == nil || !strings.HasPrefix(pkgPathOf(g), modPath) {
				continue
			}
			fnd, ok2, why2 := everyIterationCallsDeep(g, pred, depth+1)
			if !fnd {
				continue
			}
			if !ok2 {
				return true, false, why2 + " (in " + funcKey(g) + ")"
			}
			if f2, ok3, why3 := everyIterationCalls(f, func(x ssa.CallInstruction) bool { return x == c }); f2 && !ok3 {
				return true, false, why3 + " (the call of " + funcKey(g) + ")"
			}
			return true, true, ""
		}
	}
	return false, false, "no loop contains the call"
}

// loopOnlyLeavesAtHead: the innermost loop of f containing a call satisfying
// pred is left only through its header (the range/condition test) or through
// blocks that do not continue (return/panic): no `break` ends it early.
func loopOnlyLeavesAtHead(f *ssa.Function, pred func(c ssa.CallInstruction) bool) (found, ok bool, why string) {
	var best *ssaLoop
	loops := ssaLoops(f)
	for i := range loops {
		body := loops[i].body()
		for b := range body {
			for _, in := range b.Instrs {
				if c, isC := in.(ssa.CallInstruction); isC && pred(c) {
					if best == nil || len(body) < len(best.body()) {
						best = &loops[i]
					}
				}
			}
		}
	}
	if best == nil {
		return false, false, "no loop contains the call"
	}
	body := best.body()
	normalExit := map[*ssa.BasicBlock]bool{}
	for _, s := range best.Header.Succs {
		if !body[s] {
			normalExit[s] = true
		}
	}
	for b := range body {
		if b == best.Header {
			continue
		}
		for _, s := range b.Succs {
			if !body[s] && normalExit[s] {
				return true, false, "block " + b.Comment + " breaks out of the loop"
			}
			if !body[s] {
				// leaving the loop from inside: fine only if that successor never continues normally past the loop…
				// a `return` block has no successors; anything else is a break
				if len(s.Succs) != 0 {
					return true, false, "block " + b.Comment + " leaves the loop early"
				}
				if _, isRet := s.Instrs[len(s.Instrs)-1].(*ssa.Return); !isRet {
					if _, isPanic := s.Instrs[len(s.Instrs)-1].(*ssa.Panic); !isPanic {
						return true, false, "block " + b.Comment + " leaves the loop early"
					}
				}
			}
		}
	}
	return true, true, ""
}

package main

import (
	"fmt"
	"go/ast"
	"go/constant"
	"go/token"
	"go/types"
	"sort"
	"strings"

	"golang.org/x/tools/go/cfg"
	"golang.org/x/tools/go/ssa"
	"golang.org/x/tools/go/types/typeutil"
)

// ---------------------------------------------------------------------
// R07.7  position invariant of the YANG lexer: 0 <= start <= pos <= len(input)
//
// Every write to lexer.pos, lexer.start and lexer.width in package parse is
// classified; a write that is not one of the invariant-preserving forms is an
// open obligation. The forms are derived from what the write adds to pos,
// bounded symbolically by rest = len(input) - pos:
//
//   advance by a decoded width      pos += w,  w from DecodeRuneInString(input[pos:])   (w <= rest)
//   advance to a found needle       pos += i + c, i = strings.Index(input[pos:], K) on the i >= 0 path, c <= len(K)
//   advance to the end              pos += len(input) - pos
//   advance over a matched prefix   pos += c in a state function that lexStmt returns only under HasPrefix(input[pos:], K), c <= len(K)
//   retreat                         pos -= width    (discipline: R07.8)
//   start = pos
// ---------------------------------------------------------------------

type ubound struct {
	a   int // coefficient of rest (0 or 1)
	k   int64
	ok  bool
	why string
}

type lexInv struct {
	w                         *World
	fPos, fStart, fWidth, fIn *types.Var
}

func (li *lexInv) isField(v ssa.Value, f *types.Var) bool {
	fa, ok := v.(*ssa.FieldAddr)
	return ok && isFieldAddrOf(fa, f)
}

func (li *lexInv) isLoadOf(v ssa.Value, f *types.Var) bool {
	u, ok := v.(*ssa.UnOp)
	return ok && u.Op == token.MUL && li.isField(u.X, f)
}

// isRestSlice: v is input[pos:] (no high bound).
func (li *lexInv) isRestSlice(v ssa.Value) bool {
	s, ok := v.(*ssa.Slice)
	return ok && s.High == nil && s.Max == nil && li.isLoadOf(s.X, li.fIn) && s.Low != nil && li.isLoadOf(s.Low, li.fPos)
}

func stripConv(v ssa.Value) ssa.Value {
	for {
		switch x := v.(type) {
		case *ssa.Convert:
			// only integer-to-integer conversions keep the bound
			if bt, ok := x.X.Type().Underlying().(*types.Basic); ok && bt.Info()&types.IsInteger != 0 {
				v = x.X
				continue
			}
		case *ssa.ChangeType:
			v = x.X
			continue
		}
		return v
	}
}

// nonNegAt: block at is reached only when v >= 0 was established.
func nonNegAt(v ssa.Value, at *ssa.BasicBlock) bool {
	for _, ref := range *v.Referrers() {
		bo, ok := ref.(*ssa.BinOp)
		if !ok {
			continue
		}
		c, isC := bo.Y.(*ssa.Const)
		if !isC || bo.X != v || c.Value == nil {
			continue
		}
		cv, _ := constant.Int64Val(constant.ToInt(c.Value))
		for _, r2 := range *bo.Referrers() {
			iff, ok := r2.(*ssa.If)
			if !ok {
				continue
			}
			var succ *ssa.BasicBlock
			switch {
			case bo.Op == token.LSS && cv == 0, bo.Op == token.LEQ && cv == -1, bo.Op == token.EQL && cv == -1:
				succ = iff.Block().Succs[1]
			case bo.Op == token.GEQ && cv == 0, bo.Op == token.GTR && cv == -1, bo.Op == token.NEQ && cv == -1:
				succ = iff.Block().Succs[0]
			}
			if succ != nil && len(succ.Preds) == 1 && succ.Dominates(at) {
				return true
			}
		}
	}
	return false
}

// trueAt: the boolean v is known to hold in block at (at lies under the true
// branch of a test of v, or the false branch of a test of !v).
func trueAt(v ssa.Value, at *ssa.BasicBlock) bool {
	var check func(x ssa.Value, want bool) bool
	check = func(x ssa.Value, want bool) bool {
		for _, ref := range *x.Referrers() {
			switch y := ref.(type) {
			case *ssa.If:
				succ := y.Block().Succs[0]
				if !want {
					succ = y.Block().Succs[1]
				}
				if len(succ.Preds) == 1 && (succ == at || succ.Dominates(at)) {
					return true
				}
			case *ssa.UnOp:
				if y.Op == token.NOT && check(y, !want) {
					return true
				}
			}
		}
		return false
	}
	return check(v, true)
}

func (li *lexInv) ub(v ssa.Value, at *ssa.BasicBlock, depth int) ubound {
	if depth > 8 {
		return ubound{why: "too deep"}
	}
	v = stripConv(v)
	switch x := v.(type) {
	case *ssa.Const:
		if x.Value == nil {
			return ubound{why: "nil const"}
		}
		n, ok := constant.Int64Val(constant.ToInt(x.Value))
		return ubound{a: 0, k: n, ok: ok}
	case *ssa.BinOp:
		switch x.Op {
		case token.ADD:
			// strings.Index(input[pos:], n) + len(n), the same n: the end of the occurrence found, within the
			// rest whatever n is
			for _, pair := range [][2]ssa.Value{{x.X, x.Y}, {x.Y, x.X}} {
				idx, isIdx := stripConv(pair[0]).(*ssa.Call)
				ln, isLen := stripConv(pair[1]).(*ssa.Call)
				if !isIdx || !isLen {
					continue
				}
				if sc := idx.Call.StaticCallee(); sc == nil || sc.String() != "strings.Index" || len(idx.Call.Args) != 2 || !li.isRestSlice(idx.Call.Args[0]) {
					continue
				}
				if b, ok := ln.Call.Value.(*ssa.Builtin); !ok || nm(b) != "len" || len(ln.Call.Args) != 1 || ln.Call.Args[0] != idx.Call.Args[1] {
					continue
				}
				if !nonNegAt(idx, at) {
					return ubound{why: "result of strings.Index used where `not found` (-1) has not been excluded"}
				}
				return ubound{a: 1, k: 0, ok: true}
			}
			l, r := li.ub(x.X, at, depth+1), li.ub(x.Y, at, depth+1)
			if !l.ok {
				return l
			}
			if !r.ok {
				return r
			}
			if l.a+r.a > 1 {
				return ubound{why: "sum of two input-sized quantities"}
			}
			return ubound{a: l.a + r.a, k: l.k + r.k, ok: true}
		case token.SUB:
			// len(input) - pos
			if c, ok := stripConv(x.X).(*ssa.Call); ok {
				if b, ok := c.Call.Value.(*ssa.Builtin); ok && nm(b) == "len" && li.isLoadOf(c.Call.Args[0], li.fIn) && li.isLoadOf(stripConv(x.Y), li.fPos) {
					return ubound{a: 1, k: 0, ok: true}
				}
			}
			// x - const
			if c, ok := stripConv(x.Y).(*ssa.Const); ok && c.Value != nil {
				l := li.ub(x.X, at, depth+1)
				n, _ := constant.Int64Val(constant.ToInt(c.Value))
				if l.ok && n >= 0 {
					l.k -= n
					return l
				}
			}
		}
		return ubound{why: "arithmetic `" + x.String() + "` not bounded by the remaining input"}
	case *ssa.Extract:
		if c, ok := x.Tuple.(*ssa.Call); ok && x.Index == 1 {
			if sc := c.Call.StaticCallee(); sc != nil && (sc.String() == "unicode/utf8.DecodeRuneInString") && li.isRestSlice(c.Call.Args[0]) {
				return ubound{a: 1, k: 0, ok: true}
			}
		}
		return ubound{why: "tuple element not a decoded width of input[pos:]"}
	case *ssa.Call:
		if sc := x.Call.StaticCallee(); sc != nil && len(x.Call.Args) == 2 && li.isRestSlice(x.Call.Args[0]) {
			need := int64(0)
			switch sc.String() {
			case "strings.Index":
				if c, ok := x.Call.Args[1].(*ssa.Const); ok && c.Value != nil && c.Value.Kind() == constant.String {
					need = int64(len(constant.StringVal(c.Value)))
				}
			case "strings.IndexByte", "strings.IndexRune", "strings.IndexAny":
				need = 1
			default:
				return ubound{why: "call " + sc.String() + " gives no bound"}
			}
			if need == 0 {
				return ubound{why: "needle of " + sc.String() + " is not a non-empty constant"}
			}
			if !nonNegAt(x, at) {
				return ubound{why: "result of " + sc.String() + " used where `not found` (-1) has not been excluded"}
			}
			return ubound{a: 1, k: -need, ok: true}
		}
		// len(before) of before, _, found := strings.Cut(input[pos:], sep): the whole rest, or — where
		// found is established — at least len(sep) short of it
		if b, ok := x.Call.Value.(*ssa.Builtin); ok && nm(b) == "len" && len(x.Call.Args) == 1 {
			if ex, ok := x.Call.Args[0].(*ssa.Extract); ok && ex.Index == 0 {
				if cut, ok := ex.Tuple.(*ssa.Call); ok && cut.Call.StaticCallee() != nil && cut.Call.StaticCallee().String() == "strings.Cut" && li.isRestSlice(cut.Call.Args[0]) {
					need := int64(0)
					if c, ok := cut.Call.Args[1].(*ssa.Const); ok && c.Value != nil && c.Value.Kind() == constant.String {
						need = int64(len(constant.StringVal(c.Value)))
					}
					for _, ref := range *cut.Referrers() {
						if fx, ok := ref.(*ssa.Extract); ok && fx.Index == 2 && trueAt(fx, at) {
							return ubound{a: 1, k: -need, ok: true}
						}
					}
					return ubound{a: 1, k: 0, ok: true}
				}
			}
		}
		return ubound{why: "call `" + x.String() + "` gives no bound"}
	case *ssa.Phi:
		var out ubound
		for i, e := range x.Edges {
			b := li.ub(e, x.Block().Preds[i], depth+1)
			if !b.ok {
				return b
			}
			if i == 0 {
				out = b
				continue
			}
			if b.a != out.a {
				// a constant c and an advance ≤ rest + k: both are ≤ rest + max(c, k), the rest being ≥ 0
				k := out.k
				if b.k > k {
					k = b.k
				}
				out = ubound{a: 1, k: k, ok: true}
				continue
			}
			if b.k > out.k {
				out.k = b.k
			}
		}
		return out
	case *ssa.UnOp:
		if x.Op == token.MUL && li.isField(x.X, li.fWidth) {
			// the last store to width in the same block, with no call in between
			blk := x.Block()
			var last *ssa.Store
			for _, in := range blk.Instrs {
				if in == ssa.Instruction(x) {
					break
				}
				if st, ok := in.(*ssa.Store); ok && li.isField(st.Addr, li.fWidth) {
					last = st
				}
				if st, ok := in.(*ssa.Store); ok && li.isField(st.Addr, li.fPos) {
					last = nil
				}
			}
			if last != nil {
				return li.ub(last.Val, at, depth+1)
			}
			return ubound{why: "width read without a preceding decode in the same block"}
		}
	}
	return ubound{why: "value `" + v.String() + "` not bounded by the remaining input"}
}

// posStableBetween: no write to pos and no call that receives the lexer on
// any path from instruction a to instruction b (a's block dominates b's).
func (li *lexInv) posStableBetween(a, b ssa.Instruction) bool {
	ab, bb := a.Block(), b.Block()
	touches := func(in ssa.Instruction) bool {
		if st, ok := in.(*ssa.Store); ok && li.isField(st.Addr, li.fPos) {
			return true
		}
		if c, ok := in.(ssa.CallInstruction); ok {
			for _, arg := range c.Common().Args {
				if pt, ok := arg.Type().(*types.Pointer); ok {
					if n, ok := pt.Elem().(*types.Named); ok && nm(n.Obj()) == "lexer" {
						return true
					}
				}
			}
		}
		return false
	}
	scan := func(blk *ssa.BasicBlock, from, to ssa.Instruction) bool {
		on := from == nil
		for _, in := range blk.Instrs {
			if in == to {
				return true
			}
			if on && touches(in) {
				return false
			}
			if in == from {
				on = true
			}
		}
		return true
	}
	if ab == bb {
		return scan(ab, a, b)
	}
	// blocks that lie on some path ab -> bb
	canReach := map[*ssa.BasicBlock]bool{bb: true}
	work := []*ssa.BasicBlock{bb}
	for len(work) > 0 {
		x := work[len(work)-1]
		work = work[:len(work)-1]
		for _, p := range x.Preds {
			if !canReach[p] && p != ab {
				canReach[p] = true
				work = append(work, p)
			}
		}
	}
	if !scan(ab, a, nil) || !scan(bb, nil, b) {
		return false
	}
	seen := map[*ssa.BasicBlock]bool{}
	work = append(work[:0], ab.Succs...)
	for len(work) > 0 {
		x := work[len(work)-1]
		work = work[:len(work)-1]
		if seen[x] || !canReach[x] || x == bb || x == ab {
			continue
		}
		seen[x] = true
		if !scan(x, nil, nil) {
			return false
		}
		work = append(work, x.Succs...)
	}
	return true
}

// prefixGuard: the state function f is handed out only by `return f` in a
// block entered under strings.HasPrefix(input[pos:], K); returns min len(K).
func (li *lexInv) prefixGuard(f *ssa.Function) (int64, string) {
	min := int64(-1)
	uses := 0
	for _, g := range allFuncs(f.Pkg) {
		for _, b := range g.Blocks {
			for _, in := range b.Instrs {
				var ops []*ssa.Value
				for _, op := range in.Operands(ops) {
					if *op == nil || stripConv(*op) != ssa.Value(f) {
						continue
					}
					if _, isCT := in.(*ssa.ChangeType); isCT {
						continue // looked through by stripConv at its own use
					}
					uses++
					if _, isRet := in.(*ssa.Return); !isRet {
						return -1, "state function used other than in a return (" + g.Name() + ")"
					}
					if len(b.Preds) != 1 {
						return -1, "return of the state function joins several paths in " + g.Name()
					}
					iff, ok := b.Preds[0].Instrs[len(b.Preds[0].Instrs)-1].(*ssa.If)
					if !ok || b.Preds[0].Succs[0] != b {
						return -1, "return of the state function in " + g.Name() + " is not the true branch of a prefix test"
					}
					c, ok := iff.Cond.(*ssa.Call)
					if !ok || c.Call.StaticCallee() == nil || c.Call.StaticCallee().String() != "strings.HasPrefix" || !li.isRestSlice(c.Call.Args[0]) {
						return -1, "state function returned in " + g.Name() + " without strings.HasPrefix(input[pos:], …)"
					}
					k, ok := c.Call.Args[1].(*ssa.Const)
					if !ok || k.Value == nil || k.Value.Kind() != constant.String {
						return -1, "prefix is not a constant"
					}
					for _, x := range b.Instrs {
						if _, isCall := x.(ssa.CallInstruction); isCall {
							return -1, "call between the prefix test and the return"
						}
					}
					n := int64(len(constant.StringVal(k.Value)))
					if min < 0 || n < min {
						min = n
					}
				}
			}
		}
	}
	if uses == 0 {
		return -1, "state function is never handed out"
	}
	return min, ""
}

func c07PosInvariant(w *World, r *Report) {
	li := &lexInv{w: w,
		fPos: w.Field("parse", "lexer", "pos"), fStart: w.Field("parse", "lexer", "start"),
		fWidth: w.Field("parse", "lexer", "width"), fIn: w.Field("parse", "lexer", "input")}
	sp := w.SSAPkg("parse")
	type site struct {
		f  *ssa.Function
		st *ssa.Store
		fv *types.Var
	}
	var sites []site
	for _, f := range allFuncs(sp) {
		for _, b := range f.Blocks {
			for _, in := range b.Instrs {
				st, ok := in.(*ssa.Store)
				if !ok {
					continue
				}
				for _, fv := range []*types.Var{li.fPos, li.fStart, li.fWidth, li.fIn} {
					if li.isField(st.Addr, fv) {
						sites = append(sites, site{f, st, fv})
					}
				}
			}
		}
	}
	sort.SliceStable(sites, func(i, j int) bool { return sites[i].st.Pos() < sites[j].st.Pos() })
	perFn := map[string]int{}
	for _, s := range sites {
		perFn[funcKey(s.f)+"."+s.fv.Name()]++
		c := fmt.Sprintf("%s: write #%d to lexer.%s", funcKey(s.f), perFn[funcKey(s.f)+"."+s.fv.Name()], s.fv.Name())
		st := s.st
		cname := c
		switch s.fv {
		case li.fIn:
			// only the constructor's composite literal
			_, isAlloc := st.Addr.(*ssa.FieldAddr).X.(*ssa.Alloc)
			r.Check(isAlloc, "R07.7", c, st.Pos(), "set once, in the constructor literal", "the input text is replaced while positions into the old text are live")
		case li.fStart:
			r.Check(li.isLoadOf(st.Val, li.fPos), "R07.7", c, st.Pos(), "start = pos", "start is set to something other than the current position: start <= pos is no longer an invariant (emit slices input[start:pos])")
		case li.fWidth:
			v := stripConv(st.Val)
			if cst, ok := v.(*ssa.Const); ok {
				n, _ := constant.Int64Val(constant.ToInt(cst.Value))
				r.Check(n == 0, "R07.7", c, st.Pos(), "width = 0", fmt.Sprintf("width set to the constant %d: backup would move pos by bytes that were never read", n))
				continue
			}
			b := li.ub(v, st.Block(), 0)
			r.Check(b.ok && b.a == 1 && b.k <= 0, "R07.7", c, st.Pos(), "width = size of the rune decoded at input[pos:]", "width is not the size of the rune just decoded ("+b.why+")")
		case li.fPos:
			// pos = len(input): exactly the end of the text
			if c, ok := stripConv(st.Val).(*ssa.Call); ok {
				if b, ok := c.Call.Value.(*ssa.Builtin); ok && nm(b) == "len" && li.isLoadOf(c.Call.Args[0], li.fIn) {
					r.OK("R07.7", cname, st.Pos(), "pos = len(input) (the end of the text)")
					continue
				}
			}
			bo, ok := st.Val.(*ssa.BinOp)
			if !ok || !li.isLoadOf(bo.X, li.fPos) || (bo.Op != token.ADD && bo.Op != token.SUB) {
				r.Fail("R07.7", c, st.Pos(), "pos is assigned `"+st.Val.String()+"`, not advanced or retreated relative to itself: pos <= len(input) cannot be shown")
				continue
			}
			if bo.Op == token.SUB {
				r.Check(li.isLoadOf(bo.Y, li.fWidth), "R07.7", c, st.Pos(), "pos -= width (retreat over the rune just read; discipline in R07.8)", "pos is moved back by something other than the width of the last rune read")
				continue
			}
			b := li.ub(bo.Y, st.Block(), 0)
			switch {
			case !b.ok:
				r.Fail("R07.7", c, st.Pos(), "advance not bounded by the remaining input: "+b.why+" — pos can pass len(input) and the next input[pos:] panics in the lexer goroutine (not recoverable)")
			case b.a == 1 && b.k <= 0:
				// the value was computed from input[pos:] with an earlier load of pos: pos must be unchanged since
				stable := true
				var origin ssa.Instruction
				var find func(v ssa.Value, d int)
				find = func(v ssa.Value, d int) {
					if d > 8 {
						return
					}
					v = stripConv(v)
					switch x := v.(type) {
					case *ssa.Call:
						origin = x
					case *ssa.Extract:
						if c, ok := x.Tuple.(*ssa.Call); ok {
							origin = c
						}
					case *ssa.BinOp:
						find(x.X, d+1)
						find(x.Y, d+1)
					case *ssa.Phi:
						for _, e := range x.Edges {
							find(e, d+1)
						}
					}
				}
				find(bo.Y, 0)
				if origin != nil && origin.Block().Dominates(st.Block()) {
					stable = li.posStableBetween(origin, st)
				}
				r.Check(stable, "R07.7", c, st.Pos(), fmt.Sprintf("advance <= len(input) - pos %+d", b.k), "pos may change between the search in input[pos:] and the advance computed from it")
			case b.a == 1:
				r.Fail("R07.7", c, st.Pos(), fmt.Sprintf("advance can be len(input) - pos + %d: pos passes the end of the input (e.g. a text that ends inside the construct being skipped), the next input[pos:] panics in the lexer goroutine", b.k))
			default:
				// constant advance: needs the caller's prefix test, and must be the first thing the state function does
				first := st.Block().Index == 0
				for _, in := range st.Block().Instrs {
					if in == ssa.Instruction(st) {
						break
					}
					if _, isCall := in.(ssa.CallInstruction); isCall {
						first = false
					}
				}
				n, why := li.prefixGuard(s.f)
				if why == "" && (!first || n < b.k) {
					why = fmt.Sprintf("the caller matched %d bytes at pos, the function skips %d (first action: %v)", n, b.k, first)
				}
				r.Check(why == "", "R07.7", c, st.Pos(), fmt.Sprintf("advance by %d over a prefix of %d bytes that lexStmt matched at pos", b.k, n), "constant advance without a matching prefix test: "+why)
			}
		}
	}
	r.Count("writes to lexer.pos/start/width/input classified", len(sites))
}

// ---------------------------------------------------------------------
// R07.8  backup typestate: backup() undoes exactly one next(). On every path
// through every lexer function, a call of backup() is preceded by a call of
// next() with no emit/ignore/peek/accept/backup in between (after emit,
// start == pos and a retreat would make pos < start).
// ---------------------------------------------------------------------

func c07BackupDiscipline(w *World, r *Report) {
	p := w.Pkg("parse")
	lexerT := w.Method("parse", "lexer", "next").Type().(*types.Signature).Recv().Type()
	next := w.Method("parse", "lexer", "next")
	backup := w.Method("parse", "lexer", "backup")
	const (
		none    = 1
		pending = 2
	)
	nsites := 0
	for _, fd := range funcDecls(p) {
		if fd.Body == nil {
			continue
		}
		uses := false
		ast.Inspect(fd.Body, func(n ast.Node) bool {
			if ce, ok := n.(*ast.CallExpr); ok && typeutil.Callee(p.TypesInfo, ce) == backup {
				uses = true
			}
			return true
		})
		if !uses {
			continue
		}
		g := cfg.New(fd.Body, func(ce *ast.CallExpr) bool {
			if id, ok := ce.Fun.(*ast.Ident); ok && id.Name == "panic" {
				return false
			}
			return true
		})
		// events per block, in evaluation order (calls: arguments before the call itself)
		type ev struct {
			kind int // 0 next, 1 backup, 2 other lexer call
			pos  token.Pos
		}
		events := map[*cfg.Block][]ev{}
		for _, b := range g.Blocks {
			for _, node := range b.Nodes {
				var evs []ev
				var visit func(n ast.Node)
				visit = func(n ast.Node) {
					ast.Inspect(n, func(y ast.Node) bool {
						if y == nil {
							return false
						}
						if _, ok := y.(*ast.FuncLit); ok {
							return false
						}
						ce, ok := y.(*ast.CallExpr)
						if !ok {
							return true
						}
						for _, a := range ce.Args {
							visit(a)
						}
						visit(ce.Fun)
						callee, _ := typeutil.Callee(p.TypesInfo, ce).(*types.Func)
						switch {
						case callee == next:
							evs = append(evs, ev{0, ce.Pos()})
						case callee == backup:
							evs = append(evs, ev{1, ce.Pos()})
						case callee != nil && callee.Type().(*types.Signature).Recv() != nil && types.Identical(callee.Type().(*types.Signature).Recv().Type(), lexerT):
							evs = append(evs, ev{2, ce.Pos()})
						}
						return false
					})
				}
				visit(node)
				events[b] = append(events[b], evs...)
			}
		}
		in := map[*cfg.Block]int{}
		if len(g.Blocks) == 0 {
			continue
		}
		in[g.Blocks[0]] = none
		bad := map[token.Pos]bool{}
		sitesSeen := map[token.Pos]bool{}
		for changed := true; changed; {
			changed = false
			for _, b := range g.Blocks {
				s := in[b]
				if s == 0 {
					continue
				}
				for _, e := range events[b] {
					switch e.kind {
					case 0:
						s = pending
					case 1:
						sitesSeen[e.pos] = true
						if s&none != 0 {
							bad[e.pos] = true
						}
						s = none
					case 2:
						s = none
					}
				}
				for _, succ := range b.Succs {
					if in[succ]|s != in[succ] {
						in[succ] |= s
						changed = true
					}
				}
			}
		}
		var ps []token.Pos
		for q := range sitesSeen {
			ps = append(ps, q)
		}
		sort.Slice(ps, func(i, j int) bool { return ps[i] < ps[j] })
		for i, q := range ps {
			nsites++
			r.Check(!bad[q], "R07.8", fmt.Sprintf("%s: backup() #%d", funcDeclName(fd), i+1), q, "preceded by next() on every path", "backup() can be reached without a fresh next() (after emit/ignore/peek/accept or a previous backup): pos moves before start or by a stale width, and emit's input[start:pos] panics or re-reads input")
		}
	}
	if nsites == 0 {
		panic(undecided{"no call of lexer.backup found"})
	}
	_ = strings.Join
}

// ---------------------------------------------------------------------
// R08.10  a comment ends at the first terminator *after* its opener: when the
// opener's tail can be read as the head of the terminator ("/*" + "/" reads
// "*/"), the search for the terminator must start after the whole opener.
// ---------------------------------------------------------------------

func c08CommentSearchStart(w *World, r *Report, rule string) {
	li := &lexInv{w: w,
		fPos: w.Field("parse", "lexer", "pos"), fStart: w.Field("parse", "lexer", "start"),
		fWidth: w.Field("parse", "lexer", "width"), fIn: w.Field("parse", "lexer", "input")}
	sp := w.SSAPkg("parse")
	n := 0
	for _, f := range allFuncs(sp) {
		if f.Parent() != nil || len(f.Params) != 1 {
			continue
		}
		// opener: the prefix lexStmt tests before handing out f
		opener := ""
		for _, g := range allFuncs(sp) {
			for _, b := range g.Blocks {
				ret, ok := b.Instrs[len(b.Instrs)-1].(*ssa.Return)
				if !ok || len(ret.Results) != 1 || stripConv(ret.Results[0]) != ssa.Value(f) || len(b.Preds) != 1 {
					continue
				}
				if iff, ok := b.Preds[0].Instrs[len(b.Preds[0].Instrs)-1].(*ssa.If); ok && b.Preds[0].Succs[0] == b {
					if c, ok := iff.Cond.(*ssa.Call); ok && c.Call.StaticCallee() != nil && c.Call.StaticCallee().String() == "strings.HasPrefix" {
						if k, ok := c.Call.Args[1].(*ssa.Const); ok && k.Value != nil && k.Value.Kind() == constant.String {
							opener = constant.StringVal(k.Value)
						}
					}
				}
			}
		}
		if opener == "" {
			continue
		}
		for _, b := range f.Blocks {
			for _, in := range b.Instrs {
				c, ok := in.(*ssa.Call)
				if !ok || c.Call.StaticCallee() == nil {
					continue
				}
				closer := ""
				restArg := ssa.Value(nil)
				if len(c.Call.Args) > 0 {
					restArg = c.Call.Args[0]
				}
				// the search handed to a helper of the package that is given the terminator
				if h := c.Call.StaticCallee(); h.Pkg == f.Pkg && h.Blocks != nil && h != f {
					for _, hb := range h.Blocks {
						for _, hin := range hb.Instrs {
							hc, ok := hin.(*ssa.Call)
							if !ok || hc.Call.StaticCallee() == nil || len(hc.Call.Args) != 2 {
								continue
							}
							switch hc.Call.StaticCallee().String() {
							case "strings.Index", "strings.Cut", "strings.Contains":
							default:
								continue
							}
							prm, isP := hc.Call.Args[1].(*ssa.Parameter)
							if !isP {
								continue
							}
							for k, q := range h.Params {
								if q == prm && k < len(c.Call.Args) {
									if kc, ok := c.Call.Args[k].(*ssa.Const); ok && kc.Value != nil && kc.Value.Kind() == constant.String {
										closer = constant.StringVal(kc.Value)
										restArg = hc.Call.Args[0]
									}
								}
							}
						}
					}
				}
				switch c.Call.StaticCallee().String() {
				case "strings.Index", "strings.Cut", "strings.Contains", "strings.SplitN", "strings.IndexAny":
					k, ok := c.Call.Args[1].(*ssa.Const)
					if !ok || k.Value == nil || k.Value.Kind() != constant.String {
						continue
					}
					closer = constant.StringVal(k.Value)
				case "strings.IndexByte", "strings.IndexRune", "strings.ContainsRune":
					// a one-character terminator
					k, ok := c.Call.Args[1].(*ssa.Const)
					if !ok || k.Value == nil {
						continue
					}
					ch, isInt := intConst(k.Value)
					if !isInt {
						continue
					}
					closer = string(rune(ch))
				default:
					if closer == "" {
						continue
					}
				}
				if closer == "" {
					continue
				}
				n++
				what := fmt.Sprintf("%s: search for %q after opener %q", f.Name(), closer, opener)
				overlap := 0
				for j := 1; j <= len(opener) && j <= len(closer); j++ {
					if opener[len(opener)-j:] == closer[:j] {
						overlap = j
					}
				}
				if overlap == 0 {
					r.OK(rule, what, c.Pos(), "opener and terminator share no characters: any start within the opener finds the same terminator")
					continue
				}
				if !li.isRestSlice(restArg) {
					r.Fail(rule, what, c.Pos(), "the text searched is not input[pos:]: start of the search relative to the opener not determined")
					continue
				}
				// constant advances of pos that precede the search on every path
				var skipped int64
				for _, b2 := range f.Blocks {
					for _, in2 := range b2.Instrs {
						st, ok := in2.(*ssa.Store)
						if !ok || !li.isField(st.Addr, li.fPos) {
							continue
						}
						before := b2 != b && b2.Dominates(b)
						if b2 == b {
							for _, x := range b.Instrs {
								if x == in2 {
									before = true
								}
								if x == in {
									break
								}
							}
						}
						if !before {
							continue
						}
						if bo, ok := st.Val.(*ssa.BinOp); ok && bo.Op == token.ADD && li.isLoadOf(bo.X, li.fPos) {
							if u := li.ub(bo.Y, st.Block(), 0); u.ok && u.a == 0 {
								skipped += u.k
							}
						}
					}
				}
				r.Check(skipped >= int64(len(opener)), rule, what, c.Pos(), fmt.Sprintf("search starts %d bytes after the start of the opener", skipped),
					fmt.Sprintf("the search starts %d bytes into the %d-byte opener whose tail %q is the head of the terminator: a comment that begins %q ends at once and its text is lexed as statement tokens", skipped, len(opener), opener[len(opener)-overlap:], opener+closer[overlap:]))
			}
		}
	}
	if n == 0 {
		panic(undecided{"no comment scanner with a terminator search found"})
	}
}

// R07.9  what the lexer goroutine owns, only it touches. The lexer runs in its
// own goroutine, concurrently with the parser; the only synchronisation is
// the item channel. So:
//   - the string interner handed to the lexer (an unlocked map) is used only
//     from the goroutine's code (cone of lexer.run);
//   - the lexer fields the goroutine writes (pos, start, width, bracketDepth)
//     are not accessed from the parser side, and the field the parser writes
//     (lastPos) is not accessed from the goroutine side.
func c07Confinement(w *World, r *Report) {
	p := w.Pkg("parse")
	lexCone := staticCone(w, []string{"parse"}, []*types.Func{w.Method("parse", "lexer", "run")}, true)
	coneStopAt = map[*types.Func]bool{w.Method("parse", "lexer", "run"): true}
	parserCone := staticCone(w, []string{"parse"}, []*types.Func{w.Method("parse", "Tree", "Parse")}, true)
	coneStopAt = nil
	// functions reachable from both (helpers such as isSpace) are neutral
	intern := w.Method("parse", "StringInterner", "Intern")
	n := 0
	for _, fd := range funcDecls(p) {
		if fd.Body == nil || isTestFile(w, fd.Pos()) {
			continue
		}
		fn, _ := p.TypesInfo.Defs[fd.Name].(*types.Func)
		for _, ce := range callsIn(p, fd.Body) {
			if calleeOf(p, ce) != intern {
				continue
			}
			n++
			_, inLex := lexCone[fn]
			_, inParser := parserCone[fn]
			r.Check(inLex && !inParser, "R07.9", funcDeclName(fd)+" uses the string interner", ce.Pos(), "lexer goroutine only", "the unlocked interner map that the lexer goroutine writes is also used from the parser's goroutine: concurrent map access aborts the process (fatal error, not recoverable)")
		}
	}
	if n == 0 {
		panic(undecided{"no use of StringInterner.Intern found"})
	}
	side := map[string]string{"pos": "lexer", "start": "lexer", "width": "lexer", "bracketDepth": "lexer", "lastPos": "parser"}
	var names []string
	for k := range side {
		names = append(names, k)
	}
	sort.Strings(names)
	for _, fname := range names {
		fv := w.Field("parse", "lexer", fname)
		var offenders []string
		for _, fd := range funcDecls(p) {
			if fd.Body == nil || isTestFile(w, fd.Pos()) {
				continue
			}
			fn, _ := p.TypesInfo.Defs[fd.Name].(*types.Func)
			_, inLex := lexCone[fn]
			_, inParser := parserCone[fn]
			uses := false
			ast.Inspect(fd.Body, func(x ast.Node) bool {
				if se, ok := x.(*ast.SelectorExpr); ok && fieldOfSel(p, se) == fv {
					uses = true
				}
				return true
			})
			if !uses {
				continue
			}
			if side[fname] == "lexer" && inParser {
				offenders = append(offenders, funcDeclName(fd))
			}
			if side[fname] == "parser" && inLex && !inParser {
				offenders = append(offenders, funcDeclName(fd))
			}
		}
		r.Check(len(offenders) == 0, "R07.9", "lexer."+fname+" stays on the "+side[fname]+" side", fv.Pos(), "accessed from one goroutine only", "field "+fname+" belongs to the "+side[fname]+" goroutine but is also accessed in {"+strings.Join(offenders, ", ")+"}: an unsynchronised read/write pair between the two goroutines")
	}
}

package main

import (
	"go/token"
	"go/types"
	"strings"

	"golang.org/x/tools/go/ssa"
)

// E5: write-set / escape summaries on go/ssa.
//
// For a function f and a "slot" (parameter i or free variable j), Mutates
// answers whether f may write through memory reachable from that slot, hand a
// pointer-like value derived from it to code that may (external non-pure
// functions, dynamic calls, in-module functions that mutate the receiving
// parameter), or store it into other memory (escape).

type slot struct {
	fn   *ssa.Function
	free bool
	idx  int
}

type Effects struct {
	// AllowDynamic: calls of function values of these types are assumed not to mutate their arguments
	AllowDynamic func(t types.Type) bool
	// FollowCallResults: treat a pointer-like call result as possibly aliasing the call's pointer-like arguments
	FollowCallResults bool
	W                 *World
	memo              map[slot]int // 0 unknown, 1 in progress, 2 false, 3 true
	why               map[slot]string
	wherePos          map[slot]token.Pos
}

func NewEffects(w *World) *Effects {
	return &Effects{W: w, memo: map[slot]int{}, why: map[slot]string{}, wherePos: map[slot]token.Pos{}}
}

func pointerLike(t types.Type) bool {
	switch u := t.Underlying().(type) {
	case *types.Pointer, *types.Slice, *types.Map, *types.Chan:
		return true
	case *types.Interface:
		return true
	case *types.Signature:
		return false // calling a func value is analysed at the call
	case *types.Struct:
		for i := 0; i < u.NumFields(); i++ {
			if pointerLike(u.Field(i).Type()) {
				return true
			}
		}
	case *types.Array:
		return pointerLike(u.Elem())
	}
	return false
}

// roots returns the parameters / free variables / globals / allocations a
// value may be derived from (through address arithmetic, loads, phis …).
type rootSet struct {
	params  map[int]bool
	frees   map[int]bool
	globals map[*ssa.Global]bool
	fresh   bool // may be a fresh allocation or call result
	other   bool
}

func (e *Effects) rootsOf(v ssa.Value) *rootSet {
	rs := &rootSet{params: map[int]bool{}, frees: map[int]bool{}, globals: map[*ssa.Global]bool{}}
	seen := map[ssa.Value]bool{}
	var walk func(v ssa.Value)
	walk = func(v ssa.Value) {
		if v == nil || seen[v] {
			return
		}
		seen[v] = true
		// a value that carries no pointer (string, number, bool, plain struct)
		// is a copy: nothing can be reached or modified through it
		switch v.(type) {
		case *ssa.FieldAddr, *ssa.IndexAddr, *ssa.Alloc, *ssa.Global, *ssa.Parameter, *ssa.FreeVar:
		default:
			if !pointerLike(v.Type()) {
				rs.fresh = true
				return
			}
		}
		switch x := v.(type) {
		case *ssa.Parameter:
			for i, p := range x.Parent().Params {
				if p == x {
					rs.params[i] = true
				}
			}
		case *ssa.FreeVar:
			for i, p := range x.Parent().FreeVars {
				if p == x {
					rs.frees[i] = true
				}
			}
		case *ssa.Global:
			rs.globals[x] = true
		case *ssa.Alloc:
			rs.fresh = true
			// a local that holds a copy of something: follow stores into it
			if !x.Heap || true {
				for _, ref := range *x.Referrers() {
					if st, ok := ref.(*ssa.Store); ok && st.Addr == ssa.Value(x) && pointerLike(st.Val.Type()) {
						walk(st.Val)
					}
				}
			}
		case *ssa.MakeSlice, *ssa.MakeMap, *ssa.MakeChan, *ssa.MakeClosure, *ssa.Const, *ssa.Function, *ssa.Builtin:
			rs.fresh = true
		case *ssa.Call:
			// result of a call: fresh unless it is append(x, …), which may alias x
			if b, ok := x.Call.Value.(*ssa.Builtin); ok && nm(b) == "append" {
				walk(x.Call.Args[0])
			} else {
				rs.fresh = true
				if e.FollowCallResults {
					// conservative: a pointer-like result may alias any pointer-like argument (getters)
					for _, a := range x.Call.Args {
						if pointerLike(a.Type()) {
							walk(a)
						}
					}
					if x.Call.IsInvoke() {
						walk(x.Call.Value)
					}
				}
			}
		case *ssa.FieldAddr:
			walk(x.X)
		case *ssa.Field:
			walk(x.X)
		case *ssa.IndexAddr:
			walk(x.X)
		case *ssa.Index:
			walk(x.X)
		case *ssa.Lookup:
			walk(x.X)
		case *ssa.UnOp:
			walk(x.X)
		case *ssa.Phi:
			for _, ed := range x.Edges {
				walk(ed)
			}
		case *ssa.Extract:
			walk(x.Tuple)
		case *ssa.Slice:
			walk(x.X)
		case *ssa.ChangeType:
			walk(x.X)
		case *ssa.Convert:
			walk(x.X)
		case *ssa.MakeInterface:
			walk(x.X)
		case *ssa.TypeAssert:
			walk(x.X)
		case *ssa.ChangeInterface:
			walk(x.X)
		case *ssa.Next, *ssa.Range:
			for _, op := range x.(ssa.Instruction).Operands(nil) {
				if *op != nil {
					walk(*op)
				}
			}
		case *ssa.BinOp:
			rs.fresh = true
		default:
			rs.other = true
		}
	}
	walk(v)
	return rs
}

func (rs *rootSet) has(s slot) bool {
	if s.free {
		return rs.frees[s.idx]
	}
	return rs.params[s.idx]
}

var pureExternal = map[string]bool{
	"fmt.Sprintf": true, "fmt.Errorf": true, "fmt.Sprint": true, "fmt.Println": true, "fmt.Printf": true, "fmt.Sprintln": true,
	"errors.New": true, "strings.Contains": true, "strings.HasPrefix": true, "strings.Index": true, "strings.Fields": true,
	"strings.Replace": true, "strings.TrimSpace": true, "strings.Join": true, "strings.Split": true,
}

func isPureExternal(f *ssa.Function) bool {
	if f == nil {
		return false
	}
	n := f.String()
	if pureExternal[n] {
		return true
	}
	if f.Pkg != nil {
		switch f.Pkg.Pkg.Path() {
		case "math", "strconv", "strings", "unicode", "unicode/utf8", "errors", "fmt", "bytes", "regexp", "sort", "slices":
			// these take values or treat their pointer arguments as read-only / own receivers;
			// bytes.Buffer and regexp receivers are locals in the analysed code
			return true
		}
	}
	return false
}

func (e *Effects) inModule(f *ssa.Function) bool {
	if f == nil || f.Blocks == nil {
		return false
	}
	if f.Pkg != nil {
		return strings.HasPrefix(f.Pkg.Pkg.Path(), modPath)
	}
	// synthetic wrappers (promoted methods, bound methods) have no package:
	// decide by the receiver's type
	if f.Synthetic != "" && f.Signature.Recv() != nil {
		t := f.Signature.Recv().Type()
		if p, ok := t.(*types.Pointer); ok {
			t = p.Elem()
		}
		if n, ok := t.(*types.Named); ok && n.Obj().Pkg() != nil {
			return strings.HasPrefix(n.Obj().Pkg().Path(), modPath)
		}
	}
	return false
}

// Mutates reports whether fn may mutate / leak memory reachable from slot s.
func (e *Effects) Mutates(s slot) (bool, string, token.Pos) {
	switch e.memo[s] {
	case 1:
		return false, "", token.NoPos // optimistic on recursion
	case 2:
		return false, "", token.NoPos
	case 3:
		return true, e.why[s], e.wherePos[s]
	}
	e.memo[s] = 1
	res, why, pos := e.compute(s)
	if res {
		e.memo[s] = 3
		e.why[s] = why
		e.wherePos[s] = pos
	} else {
		e.memo[s] = 2
	}
	return res, why, pos
}

func (e *Effects) compute(s slot) (bool, string, token.Pos) {
	fn := s.fn
	for _, b := range fn.Blocks {
		for _, in := range b.Instrs {
			switch x := in.(type) {
			case *ssa.Store:
				if e.rootsOf(x.Addr).has(s) && !isLocalCell(x.Addr) {
					return true, "store through it in " + funcKey(fn), x.Pos()
				}
				if pointerLike(x.Val.Type()) && e.rootsOf(x.Val).has(s) && !isLocalCell(x.Addr) {
					return true, "stored into other memory (escapes) in " + funcKey(fn), x.Pos()
				}
			case *ssa.MapUpdate:
				if e.rootsOf(x.Map).has(s) {
					return true, "map update through it in " + funcKey(fn), x.Pos()
				}
				if pointerLike(x.Value.Type()) && e.rootsOf(x.Value).has(s) {
					return true, "stored into a map (escapes) in " + funcKey(fn), x.Pos()
				}
			case *ssa.Send:
				if pointerLike(x.X.Type()) && e.rootsOf(x.X).has(s) {
					return true, "sent on a channel in " + funcKey(fn), x.Pos()
				}
			case ssa.CallInstruction:
				if r, why, pos := e.callEffect(s, x); r {
					return true, why, pos
				}
			case *ssa.MakeClosure:
				// captured into a closure that mutates its binding
				cf := x.Fn.(*ssa.Function)
				for j, bnd := range x.Bindings {
					if pointerLike(bnd.Type()) && e.rootsOf(bnd).has(s) {
						if r, why, pos := e.Mutates(slot{fn: cf, free: true, idx: j}); r {
							return true, "captured by a closure: " + why, pos
						}
					}
				}
			}
		}
	}
	return false, "", token.NoPos
}

func isLocalCell(addr ssa.Value) bool {
	// the variable's own cell — also when it was moved to the heap because a function literal
	// captures the variable: assigning the variable is not a write through what it holds
	a, ok := addr.(*ssa.Alloc)
	return ok && (!a.Heap || (a.Comment != "" && a.Comment != "new" && a.Comment != "complit" && a.Comment != "makeslice" && a.Comment != "slicelit" && a.Comment != "varargs"))
}

func (e *Effects) callEffect(s slot, ci ssa.CallInstruction) (bool, string, token.Pos) {
	cc := ci.Common()
	var args []ssa.Value
	if cc.IsInvoke() {
		args = append([]ssa.Value{cc.Value}, cc.Args...)
	} else {
		args = cc.Args
	}
	// which args derive from the slot and are pointer-like?
	var hit []int
	for i, a := range args {
		if pointerLike(a.Type()) && e.rootsOf(a).has(s) {
			hit = append(hit, i)
		}
	}
	if b, ok := cc.Value.(*ssa.Builtin); ok {
		switch nm(b) {
		case "append":
			return false, "", token.NoPos // result aliasing handled by rootsOf; append itself writes only beyond len
		case "copy":
			if len(hit) > 0 && hit[0] == 0 {
				return true, "copy() into it in " + funcKey(ci.Parent()), ci.Pos()
			}
			return false, "", token.NoPos
		case "delete":
			if len(hit) > 0 && hit[0] == 0 {
				return true, "delete() from it in " + funcKey(ci.Parent()), ci.Pos()
			}
			return false, "", token.NoPos
		default:
			return false, "", token.NoPos
		}
	}
	if len(hit) == 0 {
		return false, "", token.NoPos
	}
	callee := cc.StaticCallee()
	if callee == nil {
		if cc.IsInvoke() {
			// interface method call: resolve in-module implementations by name
			impls := e.implementations(cc)
			if len(impls) == 0 {
				// external interface (e.g. Entry, error.Error): receivers/args are opaque;
				// error.Error() and fmt.Stringer are pure
				if nm(cc.Method) == "Error" || nm(cc.Method) == "String" {
					return false, "", token.NoPos
				}
				return true, "passed to an opaque interface method " + cc.Method.Name() + " in " + funcKey(ci.Parent()), ci.Pos()
			}
			for _, im := range impls {
				for _, i := range hit {
					if i < len(im.Params) {
						if r, why, pos := e.Mutates(slot{fn: im, idx: i}); r {
							return true, why, pos
						}
					}
				}
			}
			return false, "", token.NoPos
		}
		// call of a func value: if the func value itself is the slot-derived thing, calling it is fine;
		// passing slot-derived pointers to an unknown function is not
		if e.AllowDynamic != nil && e.AllowDynamic(cc.Value.Type()) {
			return false, "", token.NoPos
		}
		for _, i := range hit {
			_ = i
			return true, "passed to a dynamically called function in " + funcKey(ci.Parent()), ci.Pos()
		}
		return false, "", token.NoPos
	}
	if !e.inModule(callee) {
		if isPureExternal(callee) {
			return false, "", token.NoPos
		}
		return true, "passed to external " + callee.String() + " in " + funcKey(ci.Parent()), ci.Pos()
	}
	// MakeClosure call: bindings
	for _, i := range hit {
		if i < len(callee.Params) {
			if r, why, pos := e.Mutates(slot{fn: callee, idx: i}); r {
				return true, why, pos
			}
		}
	}
	return false, "", token.NoPos
}

func (e *Effects) implementations(cc *ssa.CallCommon) []*ssa.Function {
	prog := e.W.SSA()
	var out []*ssa.Function
	it, ok := cc.Value.Type().Underlying().(*types.Interface)
	if !ok {
		return nil
	}
	e.W.SSA()
	for _, pk := range e.W.All {
		sp := e.W.ssaPkgs[strings.TrimPrefix(strings.TrimPrefix(pk.PkgPath, modPath), "/")]
		if sp == nil {
			continue
		}
		for _, m := range sp.Members {
			t, ok := m.(*ssa.Type)
			if !ok {
				continue
			}
			for _, tt := range []types.Type{t.Type(), types.NewPointer(t.Type())} {
				if _, isI := tt.Underlying().(*types.Interface); isI {
					continue
				}
				if types.Implements(tt, it) {
					sel := prog.MethodSets.MethodSet(tt).Lookup(cc.Method.Pkg(), cc.Method.Name())
					if sel != nil {
						if f := prog.MethodValue(sel); f != nil && e.inModule(f) {
							out = append(out, f)
						}
					}
				}
			}
		}
	}
	return out
}

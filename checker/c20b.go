package main

import (
	"fmt"
	"go/constant"
	"go/token"
	"go/types"
	"sort"
	"strings"

	"golang.org/x/tools/go/ssa"
)

// C20 rules stated on path conditions (E13) rather than on statement shapes.

// c20FilterAtoms classifies the two atoms of the compiler's filter gate:
// "open" is `c.filter == nil`, "pass" the result of calling c.filter.
type c20Gate struct {
	w       *World
	filterF *types.Var
}

func (g c20Gate) isFilterLoad(v ssa.Value) bool {
	u, ok := v.(*ssa.UnOp)
	if !ok || u.Op != token.MUL {
		return false
	}
	fa, ok := u.X.(*ssa.FieldAddr)
	if !ok {
		return false
	}
	st := fa.X.Type().Underlying().(*types.Pointer).Elem().Underlying().(*types.Struct)
	return st.Field(fa.Field) == g.filterF
}

func isNilConst(v ssa.Value) bool {
	c, ok := v.(*ssa.Const)
	return ok && c.Value == nil && !isIntegerType(c.Type()) && !isStringType(c.Type())
}

// filterCall: c is a call of the compiler's filter; the argument is returned.
func (g c20Gate) filterCall(v ssa.Value) (ssa.Value, bool) {
	c, ok := v.(*ssa.Call)
	if !ok || c.Call.IsInvoke() || len(c.Call.Args) != 1 {
		return nil, false
	}
	if !g.isFilterLoad(c.Call.Value) {
		return nil, false
	}
	return c.Call.Args[0], true
}

func (g c20Gate) classify(subject func(ssa.Value) bool) func(*pcAtom) string {
	return func(a *pcAtom) string {
		if a.op == token.EQL && a.x != nil && a.y != nil {
			if g.isFilterLoad(a.x) && isNilConst(a.y) || g.isFilterLoad(a.y) && isNilConst(a.x) {
				return "open"
			}
		}
		if a.v != nil {
			if arg, ok := g.filterCall(a.v); ok && subject(arg) {
				return "pass"
			}
		}
		return ""
	}
}

// c20Attach (R20.1): every value BuildNode returns is followed to the points
// where its elements are appended to a children slice; the condition of each
// such point must be exactly "another element ∧ (no filter ∨ filter(element))".
func c20Attach(w *World, r *Report) {
	bn := w.Method("compile", "Compiler", "BuildNode")
	g := c20Gate{w, w.Field("compile", "Compiler", "filter")}
	sp := w.SSAPkg("compile")
	sym := NewSym(w)
	nCalls := 0
	for _, fn := range allFuncs(sp) {
		if isTestFile(w, fn.Pos()) {
			continue
		}
		for _, b := range fn.Blocks {
			for _, in := range b.Instrs {
				c, ok := in.(*ssa.Call)
				if !ok || c.Call.StaticCallee() == nil || c.Call.StaticCallee().Object() != bn {
					continue
				}
				nCalls++
				inst := funcKey(fn) + ": nodes built by BuildNode"
				t := &c20Track{w: w, g: g, sym: sym}
				t.slice(c, nil, []c20Frame{{start: c.Block()}}, 0)
				sort.Strings(t.problems)
				if len(t.problems) > 0 {
					r.Check(false, "R20.1", inst, c.Pos(), "", strings.Join(t.problems, "; ")+": some nodes would bypass the filter (or be dropped although they pass), so the filtered schema is not the pruned unfiltered one")
				} else if t.attach == 0 {
					r.Check(false, "R20.1", inst, c.Pos(), "", "no point found where the built nodes are attached — not decided")
				} else {
					r.Check(true, "R20.1", inst, c.Pos(), fmt.Sprintf("%d attachment point(s), each reached iff c.filter == nil || c.filter(node)", t.attach), "")
				}
			}
		}
	}
	if nCalls == 0 {
		panic(undecided{"no call of Compiler.BuildNode"})
	}
	// a sibling that now only hands its work to a checked builder: decided there
	for _, fn := range allFuncs(sp) {
		if isTestFile(w, fn.Pos()) {
			continue
		}
		if h := tailDelegate(fn); h != nil && callsNamed(h, "BuildNode") && !callsNamed(fn, "BuildNode") {
			r.OK("R20.1", funcKey(fn)+": nodes built by BuildNode", fn.Pos(), "hands its whole work to "+h.Name()+", decided there")
		}
	}
}

// tailDelegate: fn consists of one block that returns the results of one
// static call of a function of its package (everything else being the
// evaluation of the arguments); that function.
func tailDelegate(fn *ssa.Function) *ssa.Function {
	if fn == nil || len(fn.Blocks) != 1 {
		return nil
	}
	b := fn.Blocks[0]
	ret, ok := b.Instrs[len(b.Instrs)-1].(*ssa.Return)
	if !ok || len(ret.Results) == 0 {
		return nil
	}
	var call *ssa.Call
	for _, in := range b.Instrs {
		if c, isC := in.(*ssa.Call); isC {
			if call != nil {
				return nil
			}
			call = c
		}
	}
	if call == nil || call.Call.StaticCallee() == nil || call.Call.StaticCallee().Pkg != fn.Pkg {
		return nil
	}
	for i, rv := range ret.Results {
		if rv == ssa.Value(call) && len(ret.Results) == 1 {
			continue
		}
		if ex, isEx := rv.(*ssa.Extract); isEx && ex.Tuple == ssa.Value(call) && ex.Index == i {
			continue
		}
		return nil
	}
	return call.Call.StaticCallee()
}

func callsNamed(fn *ssa.Function, name string) bool {
	for _, b := range fn.Blocks {
		for _, in := range b.Instrs {
			if c, ok := in.(*ssa.Call); ok && c.Call.StaticCallee() != nil && nm(c.Call.StaticCallee()) == name {
				return true
			}
		}
	}
	return false
}

type c20Frame struct {
	start *ssa.BasicBlock // where this frame's part of the path begins
	site  *ssa.BasicBlock // where it calls on (set when descending)
	ctx   *symCtx
}

type c20Track struct {
	w        *World
	g        c20Gate
	sym      *Sym
	problems []string
	attach   int
}

func (t *c20Track) fail(pos token.Pos, msg string) {
	t.problems = append(t.problems, msg+" ("+t.w.PosStr(pos)+")")
}

// slice follows a []schema.Node holding built nodes.
func (t *c20Track) slice(s ssa.Value, ctx *symCtx, frames []c20Frame, depth int) {
	if depth > 4 {
		t.fail(s.Pos(), "built nodes are handed on more than four calls deep — not decided")
		return
	}
	for _, ref := range *s.Referrers() {
		switch x := ref.(type) {
		case *ssa.DebugRef:
		case *ssa.IndexAddr:
			if x.X != s {
				t.fail(x.Pos(), "built nodes used as an index")
				continue
			}
			for _, r2 := range *x.Referrers() {
				ld, ok := r2.(*ssa.UnOp)
				if !ok || ld.Op != token.MUL {
					if _, dbg := r2.(*ssa.DebugRef); !dbg {
						t.fail(r2.Pos(), "a slot of the built nodes is written or its address kept")
					}
					continue
				}
				t.elem(ld, s, ctx, frames, depth)
			}
		case *ssa.Call:
			if b, ok := x.Call.Value.(*ssa.Builtin); ok {
				switch nm(b) {
				case "len", "cap":
				case "append":
					t.fail(x.Pos(), "the built nodes are appended as a whole, without the filter test")
				default:
					t.fail(x.Pos(), "built nodes passed to "+b.Name())
				}
				continue
			}
			callee := x.Call.StaticCallee()
			if callee == nil || callee.Blocks == nil || !strings.HasPrefix(pkgPathOf(callee), modPath) {
				t.fail(x.Pos(), "built nodes passed to a function that is not analysed")
				continue
			}
			nf := append(append([]c20Frame{}, frames...), c20Frame{})
			nf[len(frames)-1].site = x.Block()
			nctx := &symCtx{call: x, parent: ctx}
			nf[len(frames)] = c20Frame{start: callee.Blocks[0], ctx: nctx}
			for i, a := range x.Call.Args {
				if a == s {
					t.slice(callee.Params[i], nctx, nf, depth+1)
				}
			}
		case *ssa.Phi, *ssa.Slice:
			// a renamed or resliced view is still the built nodes
			t.slice(ref.(ssa.Value), ctx, frames, depth)
		default:
			t.fail(ref.Pos(), fmt.Sprintf("built nodes leave through %T without the filter test", ref))
		}
	}
}

// elem follows one element of the built nodes.
func (t *c20Track) elem(e ssa.Value, from ssa.Value, ctx *symCtx, frames []c20Frame, depth int) {
	var visit func(v ssa.Value)
	seen := map[ssa.Value]bool{}
	isElem := func(v ssa.Value) bool { return seen[stripIface(v)] || seen[v] }
	var stores []*ssa.Store
	visit = func(v ssa.Value) {
		if seen[v] {
			return
		}
		seen[v] = true
		for _, ref := range *v.Referrers() {
			switch x := ref.(type) {
			case *ssa.DebugRef:
			case *ssa.MakeInterface:
				visit(x)
			case *ssa.ChangeInterface:
				visit(x)
			case *ssa.TypeAssert:
				// looking at the node's kind is not attaching it
			case *ssa.Store:
				if x.Val == v {
					stores = append(stores, x)
				}
			case *ssa.Call:
				if _, ok := t.g.filterCall(x); ok {
					continue
				}
				if x.Call.IsInvoke() && x.Call.Value == v {
					continue // a method of the node itself: a read
				}
				callee := x.Call.StaticCallee()
				if callee != nil && isPureExternal(callee) {
					continue
				}
				t.fail(x.Pos(), "a built node is handed to "+pcCalleeName(x.Common())+" before the filter has been asked — not decided")
			case *ssa.BinOp:
			default:
				t.fail(ref.Pos(), fmt.Sprintf("a built node leaves through %T", ref))
			}
		}
	}
	visit(e)
	for _, st := range stores {
		// the store that builds append's argument list
		ia, ok := st.Addr.(*ssa.IndexAddr)
		var app *ssa.Call
		if ok {
			if a, ok := ia.X.(*ssa.Alloc); ok {
				for _, r2 := range *a.Referrers() {
					if sl, ok := r2.(*ssa.Slice); ok {
						for _, r3 := range *sl.Referrers() {
							if c, ok := r3.(*ssa.Call); ok {
								if b, ok := c.Call.Value.(*ssa.Builtin); ok && nm(b) == "append" {
									app = c
								}
							}
						}
					}
				}
			}
		}
		if app == nil {
			t.fail(st.Pos(), "a built node is stored somewhere other than an append's argument list")
			continue
		}
		// condition of the append: along all frames
		cond := pcT
		for i, f := range frames {
			to := f.site
			if i == len(frames)-1 {
				to = app.Block()
			}
			cond = pcAndF(cond, t.sym.PathCond(f.start, to, f.ctx))
		}
		classify := t.g.classify(isElem)
		iterSeen := false
		cl := func(a *pcAtom) string {
			if n := classify(a); n != "" {
				return n
			}
			// the range loop's own "another element?" test
			if a.op == token.LSS && a.x != nil && isRangeIndex(a.x) {
				if arg, ok := isLenCall(a.y); ok && arg == from {
					iterSeen = true
					return "iter"
				}
			}
			return ""
		}
		msg := pcCompare(cond, cl, func(env map[string]bool) bool {
			return env["iter"] && (env["open"] || env["pass"])
		})
		_ = iterSeen
		if msg != "" {
			t.fail(app.Pos(), "a built node is attached under a condition other than `c.filter == nil || c.filter(node)`: "+msg)
			continue
		}
		t.attach++
	}
}

// c20DefaultCaseGate (R20.4): the error of checkChoiceDefaultCaseExists is
// gated by the filter's verdict on the choice and by nothing else of the
// filter.
func c20DefaultCaseGate(w *World, r *Report) {
	f := w.SSAFunc(w.Method("compile", "Compiler", "checkChoiceDefaultCaseExists"))
	if f == nil {
		panic(undecided{"Compiler.checkChoiceDefaultCaseExists"})
	}
	g := c20Gate{w, w.Field("compile", "Compiler", "filter")}
	sym := NewSym(w)
	// the subject: the node under test (the parameter, possibly asserted to Choice)
	isSubject := func(v ssa.Value) bool {
		v = stripIface(v)
		for {
			switch x := v.(type) {
			case *ssa.Extract:
				v = x.Tuple
				continue
			case *ssa.TypeAssert:
				v = stripIface(x.X)
				continue
			case *ssa.UnOp:
				// a variable a closure also reads lives in a cell: what was stored once
				if al, isAl := x.X.(*ssa.Alloc); isAl && x.Op == token.MUL {
					if st := cellSingleStore(al); st != nil {
						v = stripIface(st)
						continue
					}
				}
			}
			break
		}
		return v == ssa.Value(f.Params[1])
	}
	n := 0
	for _, b := range f.Blocks {
		ret, ok := b.Instrs[len(b.Instrs)-1].(*ssa.Return)
		if !ok || len(ret.Results) != 1 {
			continue
		}
		if isNilConst(ret.Results[0]) {
			continue
		}
		n++
		cond := sym.PathCond(f.Blocks[0], b, nil)
		msg := pcGated(cond, g.classify(isSubject))
		r.Check(msg == "", "R20.4", "checkChoiceDefaultCaseExists: error exit", ret.Pos(), "reached only with c.filter == nil || c.filter(choice); the filter has no other influence", "the missing-default-case error is not gated exactly by the filter's verdict on the choice itself ("+msg+"): a filter that drops the cases together with the choice then reports a spurious error, or one that keeps it loses a real one")
	}
	if n == 0 {
		panic(undecided{"checkChoiceDefaultCaseExists has no error exit"})
	}
}

// c20Combinators (R20.2).
func c20Combinators(w *World, r *Report) {
	sp := w.SSAPkg("compile")
	sym := NewSym(w)
	get := func(n string) *ssa.Function {
		f := ssaFuncNamed(sp, n)
		if f == nil || f.Blocks == nil {
			panic(undecided{"compile." + n})
		}
		return f
	}
	// IsConfig = sn.Config()
	isConfig := get("IsConfig")
	fc := sym.ResultCond(isConfig, nil)
	okC := false
	if as := fc.atoms(); len(as) == 1 && fc.k == pcAtomK {
		if c, ok := as[0].v.(*ssa.Call); ok && c.Call.IsInvoke() && nm(c.Call.Method) == "Config" && c.Call.Value == ssa.Value(isConfig.Params[0]) {
			okC = true
		}
	}
	r.Check(okC, "R20.2", "IsConfig", isConfig.Pos(), "sn.Config()", "IsConfig is not the node's config flag (it computes "+fc.String()+")")
	// IsState = !IsConfig && !IsOpd, compared as formulas over the same node
	isState, isOpd := get("IsState"), get("IsOpd")
	fs := sym.ResultCond(isState, nil)
	want := pcAndF(pcNotF(fc), pcNotF(sym.ResultCond(isOpd, nil)))
	msg := pcEquiv(fs, want)
	r.Check(msg == "", "R20.2", "IsState", isState.Pos(), "!IsConfig(sn) && !IsOpd(sn)", "IsState is not 'neither configuration nor operational command': differs for "+msg)

	for _, c := range []struct {
		fn        string
		hit, miss bool
	}{{"Include", true, false}, {"Exclude", false, true}} {
		f := get(c.fn)
		why := ""
		c20Flag = nil
		if len(f.AnonFuncs) == 1 {
			why = c20Disjunction(sym, f.AnonFuncs[0], c.hit, c.miss)
		} else if h := tailDelegate(f); h != nil && len(h.AnonFuncs) == 1 && len(f.AnonFuncs) == 0 {
			// both combinators built by one function that is told, by a constant, what a match means
			why = "the shared builder is not told what a match means by a constant"
			cl := h.AnonFuncs[0]
			for _, in := range f.Blocks[0].Instrs {
				call, isC := in.(*ssa.Call)
				if !isC || call.Call.StaticCallee() != h {
					continue
				}
				for i, a := range call.Call.Args {
					k, isK := a.(*ssa.Const)
					if !isK || k.Value == nil || k.Value.Kind() != constant.Bool || i >= len(h.Params) {
						continue
					}
					flagVal := constant.BoolVal(k.Value)
					// the closure's free variable that stands for that parameter
					for _, hb := range h.Blocks {
						for _, hin := range hb.Instrs {
							mc, isMC := hin.(*ssa.MakeClosure)
							if !isMC || mc.Fn != ssa.Value(cl) {
								continue
							}
							for j, bnd := range mc.Bindings {
								al, isAl := bnd.(*ssa.Alloc)
								if !isAl || j >= len(cl.FreeVars) || cellSingleStore(al) != ssa.Value(h.Params[i]) {
									continue
								}
								fv := cl.FreeVars[j]
								c20Flag = func(v ssa.Value) (bool, bool) {
									neg := false
									if not, ok := v.(*ssa.UnOp); ok && not.Op == token.NOT {
										v, neg = not.X, true
									}
									if ld, ok := v.(*ssa.UnOp); ok && ld.Op == token.MUL && ld.X == ssa.Value(fv) {
										return flagVal != neg, true
									}
									return false, false
								}
								why = c20Disjunction(sym, cl, c.hit, c.miss)
							}
						}
					}
				}
			}
			c20Flag = nil
		} else {
			why = "not a single closure"
		}
		r.Check(why == "", "R20.2", c.fn, f.Pos(), fmt.Sprintf("some member matches ⇒ %v; none ⇒ %v; nil members skipped", c.hit, c.miss), c.fn+" is not the (negated) disjunction of its member filters: "+why)
	}

	// IncludeState(true) = IsState, IncludeState(false) = Exclude(IsState)
	is := get("IncludeState")
	why := ""
	for _, state := range []bool{true, false} {
		var got []string
		for _, b := range is.Blocks {
			ret, ok := b.Instrs[len(b.Instrs)-1].(*ssa.Return)
			if !ok || len(ret.Results) != 1 {
				continue
			}
			cond := sym.PathCond(is.Blocks[0], b, nil)
			as := cond.atoms()
			env := map[string]bool{}
			for _, a := range as {
				if a.v != ssa.Value(is.Params[0]) {
					why = "depends on " + a.key
				}
				env[a.key] = state
			}
			if cond.eval(env, map[*pcF]bool{}) {
				got = append(got, sym.Key(ret.Results[0], nil))
			}
		}
		wantKey := "func:" + isState.String()
		if !state {
			wantKey = "compile.Exclude([func:" + isState.String() + "])"
		}
		if len(got) != 1 || got[0] != wantKey {
			why += fmt.Sprintf("IncludeState(%v) returns %v, want %s; ", state, got, wantKey)
		}
	}
	r.Check(why == "", "R20.2", "IncludeState", is.Pos(), "true ⇒ IsState; false ⇒ Exclude(IsState)", "IncludeState does not select state / everything-but-state: "+why)
}

// c20Flag: while set, gives the constant a value of the closure under analysis
// stands for (the builder's flag parameter, fixed by the caller).
var c20Flag func(ssa.Value) (bool, bool)

// c20Disjunction: closure cl(sn) ranges over the captured member filters and
// returns hit as soon as a non-nil member accepts sn, miss when none does.
func c20Disjunction(sym *Sym, cl *ssa.Function, hit, miss bool) string {
	if len(cl.Params) != 1 {
		return "closure does not take one node"
	}
	isList := func(v ssa.Value) bool {
		base, ok := v.(*ssa.UnOp)
		if !ok || base.Op != token.MUL {
			return false
		}
		_, isFv := base.X.(*ssa.FreeVar)
		return isFv
	}
	return c20DisjunctionIn(sym, cl, isList, cl.Params[0], hit, miss, 0)
}

func c20DisjunctionIn(sym *Sym, cl *ssa.Function, isList func(ssa.Value) bool, node ssa.Value, hit, miss bool, depth int) string {
	loops := ssaLoops(cl)
	if len(loops) == 0 && depth < 2 {
		// the scan handed to a helper: helper(members, node), possibly negated
		var rets []*ssa.Return
		for _, b := range cl.Blocks {
			if ret, ok := b.Instrs[len(b.Instrs)-1].(*ssa.Return); ok {
				rets = append(rets, ret)
			}
		}
		if len(rets) == 1 && len(rets[0].Results) == 1 {
			v := rets[0].Results[0]
			if not, ok := v.(*ssa.UnOp); ok && not.Op == token.NOT {
				v, hit, miss = not.X, !hit, !miss
			}
			if c, ok := v.(*ssa.Call); ok && c.Call.StaticCallee() != nil && c.Call.StaticCallee().Blocks != nil && strings.HasPrefix(pkgPathOf(c.Call.StaticCallee()), modPath) {
				h := c.Call.StaticCallee()
				var listP, nodeP *ssa.Parameter
				for i, a := range c.Call.Args {
					if i >= len(h.Params) {
						break
					}
					switch {
					case isList(a):
						listP = h.Params[i]
					case a == node:
						nodeP = h.Params[i]
					}
				}
				if listP != nil && nodeP != nil && len(c.Call.Args) == 2 {
					return c20DisjunctionIn(sym, h, func(x ssa.Value) bool { return x == ssa.Value(listP) }, nodeP, hit, miss, depth+1)
				}
			}
		}
	}
	if len(loops) != 1 {
		return fmt.Sprintf("%d loops", len(loops))
	}
	body := loops[0].body()
	// a member: an element of the captured filter list, in a range loop
	member := func(v ssa.Value) bool {
		ld, ok := v.(*ssa.UnOp)
		if !ok || ld.Op != token.MUL {
			return false
		}
		ia, ok := ld.X.(*ssa.IndexAddr)
		if !ok || !isRangeIndex(ia.Index) {
			return false
		}
		return isList(ia.X)
	}
	classify := func(a *pcAtom) string {
		// fltr == nil
		if a.op == token.EQL && a.x != nil && (isNilConst(a.x) && member(a.y) || isNilConst(a.y) && member(a.x)) {
			return "nil"
		}
		if c, ok := a.v.(*ssa.Call); ok && !c.Call.IsInvoke() && c.Call.StaticCallee() == nil && len(c.Call.Args) == 1 && c.Call.Args[0] == node && member(c.Call.Value) {
			return "match"
		}
		if a.op == token.LSS && a.x != nil && isRangeIndex(a.x) {
			return "iter"
		}
		return ""
	}
	nIn, nOut := 0, 0
	for _, b := range cl.Blocks {
		ret, ok := b.Instrs[len(b.Instrs)-1].(*ssa.Return)
		if !ok {
			continue
		}
		var val bool
		if c, isC := ret.Results[0].(*ssa.Const); isC && c.Value != nil {
			val = c.Value.ExactString() == "true"
		} else if fv, known := false, false; c20Flag != nil {
			if fv, known = c20Flag(ret.Results[0]); !known {
				return "a result that is not a constant"
			}
			val = fv
		} else {
			return "a result that is not a constant"
		}
		if body[b] || loops[0].Header.Dominates(b) && b != loops[0].Header && reachesLatchFree(b, loops[0]) {
			// a return inside an iteration
			nIn++
			cond := sym.PathCond(loops[0].Header, b, nil)
			if msg := pcCompare(cond, classify, func(env map[string]bool) bool { return env["iter"] && !env["nil"] && env["match"] }); msg != "" {
				return "the early result is not given exactly when a non-nil member matches: " + msg
			}
			if val != hit {
				return fmt.Sprintf("a matching member gives %v", val)
			}
		} else {
			nOut++
			cond := sym.PathCond(loops[0].Header, b, nil)
			if msg := pcCompare(cond, classify, func(env map[string]bool) bool { return !env["iter"] }); msg != "" {
				return "the final result is not given exactly when the members are exhausted: " + msg
			}
			if val != miss {
				return fmt.Sprintf("no matching member gives %v", val)
			}
		}
	}
	if nIn != 1 || nOut != 1 {
		return fmt.Sprintf("%d results inside the loop, %d after it", nIn, nOut)
	}
	return ""
}

// reachesLatchFree: b is dominated by the loop header, lies outside the
// natural loop body (it cannot reach a latch) but is entered from a body
// block other than the header — i.e. an exit taken in the middle of an
// iteration.
func reachesLatchFree(b *ssa.BasicBlock, l ssaLoop) bool {
	body := l.body()
	seen := map[*ssa.BasicBlock]bool{}
	var walk func(b *ssa.BasicBlock) bool
	walk = func(b *ssa.BasicBlock) bool {
		if seen[b] {
			return false
		}
		seen[b] = true
		for _, p := range b.Preds {
			if body[p] && p != l.Header {
				return true
			}
			if !body[p] && p != l.Header && l.Header.Dominates(p) && walk(p) {
				return true
			}
		}
		return false
	}
	return walk(b)
}

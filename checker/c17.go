package main

import (
	"fmt"
	"go/ast"
	"go/constant"
	"go/token"
	"go/types"
	"strings"

	"golang.org/x/tools/go/ssa"
)

func init() { register("C17", checkC17) }

func checkC17(w *World, r *Report) {
	r.NotDecided = []string{
		"which error is returned for a given concrete path (only that every arm delegates or rejects, and how the error path is encoded)",
		"multi-part list keys (the implementation validates the first key only; documented TODO)",
	}
	p := w.Pkg("schema")
	kinds := []string{"tree", "container", "list", "listEntry", "leaf", "leafList", "choice", "ycase", "opdCommand", "opdArgument", "opdOption"}

	r.Rule("R17.1", "every concrete schema node kind declares its own Validate; none falls back to the embedded accept-everything (*node).Validate", 11)
	r.guard("R17.1", func() {
		for _, k := range kinds {
			m := w.TryMethod("schema", k, "Validate")
			own := m != nil && recvNamed(m) == k
			r.Check(own, "R17.1", k+".Validate", token.NoPos, "declared on "+k, "kind '"+k+"' has no Validate of its own: the promoted (*node).Validate accepts any path below it")
		}
	})

	r.Rule("R17.2", "no acceptance without delegation: in each interior kind every path with remaining tokens is either rejected (unknown child) or handed to the child's Validate with the rest; leaf and leaf-list reject any token after the value and validate the value against the type; the empty-path arm accepts only under the stated condition (presence / empty type / incomplete paths allowed); the vendor opd kinds are outside the property", 8)
	r.guard("R17.2", func() { c17Arms(w, r) })

	r.Rule("R17.3", "the token after a list name is always validated as the key value: the key leaf's Validate is called unconditionally (once the path is non-empty) and its error returned, before anything else is looked at", 1)
	r.guard("R17.3", func() {
		m := w.Method("schema", "list", "Validate")
		fd, _ := w.FuncDecl(m)
		pParam := paramObj(p, fd, 2)
		ok := false
		for i, s := range fd.Body.List {
			is, isIf := s.(*ast.IfStmt)
			if !isIf || is.Init == nil || i == 0 {
				continue
			}
			as, isA := is.Init.(*ast.AssignStmt)
			if !isA || len(as.Rhs) != 1 {
				continue
			}
			ce, isC := as.Rhs[0].(*ast.CallExpr)
			if !isC {
				continue
			}
			se, isS := ce.Fun.(*ast.SelectorExpr)
			if !isS || se.Sel.Name != "Validate" || len(ce.Args) != 3 {
				continue
			}
			// third argument mentions p[0]
			usesHead := false
			ast.Inspect(ce.Args[2], func(x ast.Node) bool {
				if ix, ok := x.(*ast.IndexExpr); ok && objOfIdent(p, ix.X) == pParam {
					usesHead = true
				}
				return true
			})
			// receiver is children[key] where key from Keys()
			recvOK := false
			ro := objOfIdent(p, se.X)
			ast.Inspect(fd.Body, func(x ast.Node) bool {
				if a2, ok := x.(*ast.AssignStmt); ok && len(a2.Lhs) == 1 && ro != nil && objOfIdent(p, a2.Lhs[0]) == ro {
					if ix, ok := a2.Rhs[0].(*ast.IndexExpr); ok {
						if f := fieldOfSel(p, ix.X); f != nil && f.Name() == "children" {
							recvOK = true
						}
					}
				}
				return true
			})
			rets := returnsIn(is.Body)
			if usesHead && recvOK && len(rets) == 1 && objOfIdent(p, rets[0].Results[0]) == objOfIdent(p, as.Lhs[0]) {
				ok = true
			}
		}
		r.Check(ok, "R17.3", "list.Validate validates the key token", fd.Pos(), "top-level `if err := key.Validate(ctx, path, {p[0]}); err != nil { return err }`", "the key value is validated only on some paths (e.g. only when the path ends on the entry): a corrupted key in a longer path is accepted")
	})

	r.Rule("R17.5", "an error names its element whenever there is one: each error constructor in schema/errors.go that sets Path from its path argument does so unconditionally or under a guard that is true for every non-empty path", 6)
	r.guard("R17.5", func() {
		sp := w.Pkg("schema")
		n := 0
		for _, fd := range funcDecls(sp) {
			if fd.Body == nil || !strings.HasSuffix(w.Fset.Position(fd.Pos()).Filename, "/errors.go") {
				continue
			}
			// parameter named path of type []string
			var pathObj types.Object
			for _, fl := range fd.Type.Params.List {
				for _, nm := range fl.Names {
					if t := sp.TypesInfo.TypeOf(fl.Type); t != nil && t.String() == "[]string" {
						pathObj = sp.TypesInfo.Defs[nm]
					}
				}
			}
			if pathObj == nil {
				continue
			}
			// statements `x.Path = pathutil.Pathstr(path)` at top level or inside an if
			check := func(cond ast.Expr, pos token.Pos) {
				n++
				name := funcDeclName(fd)
				if cond == nil {
					r.OK("R17.5", name+" sets Path", pos, "unconditionally")
					return
				}
				ok, bad := true, ""
				func() {
					defer func() {
						if x := recover(); x != nil {
							if u, isU := x.(undecided); isU {
								ok, bad = false, u.why
								return
							}
							panic(x)
						}
					}()
					for _, k := range []int64{1, 2, 3, 9} {
						env := &guardEnv{p: sp, opaque: map[string]constant.Value{"len(" + pathObj.Name() + ")": constant.MakeInt64(k)}}
						if !env.cond(cond) {
							ok, bad = false, fmt.Sprintf("a path of %d element(s) is not recorded", k)
						}
					}
				}()
				r.Check(ok, "R17.5", name+" sets Path", pos, "whenever the path is non-empty", "the error's Path is set only when `"+types.ExprString(cond)+"` ("+bad+"): the rejection no longer identifies the offending element")
			}
			isPathAssign := func(s ast.Stmt) bool {
				as, ok := s.(*ast.AssignStmt)
				if !ok || len(as.Lhs) != 1 {
					return false
				}
				se, ok := as.Lhs[0].(*ast.SelectorExpr)
				if !ok || se.Sel.Name != "Path" {
					return false
				}
				uses := false
				ast.Inspect(as.Rhs[0], func(x ast.Node) bool {
					if id, ok := x.(*ast.Ident); ok && sp.TypesInfo.Uses[id] == pathObj {
						uses = true
					}
					return true
				})
				return uses
			}
			for _, st := range fd.Body.List {
				if isPathAssign(st) {
					check(nil, st.Pos())
				}
				if is, ok := st.(*ast.IfStmt); ok && is.Init == nil {
					for _, s2 := range is.Body.List {
						if isPathAssign(s2) {
							check(is.Cond, s2.Pos())
						}
					}
				}
			}
		}
		if n == 0 {
			panic(undecided{"no error constructor sets Path from a path argument"})
		}
	})

	r.Rule("R17.6", "path validation is read-only: no Validate method of a schema node kind stores through its receiver (the schema is shared by every path checked against it; a memoised verdict would make one answer depend on an earlier question)", 8)
	r.guard("R17.6", func() {
		eff := NewEffects(w)
		n := 0
		for _, f := range allFuncs(w.SSAPkg("schema")) {
			if f.Name() != "Validate" || f.Signature.Recv() == nil || f.Parent() != nil || len(f.Params) == 0 {
				continue
			}
			if !strings.HasSuffix(w.Fset.Position(f.Pos()).Filename, "/tree.go") {
				continue
			}
			if _, isPtr := f.Params[0].Type().(*types.Pointer); !isPtr {
				continue
			}
			n++
			bad := ""
			for _, b := range f.Blocks {
				for _, in := range b.Instrs {
					switch x := in.(type) {
					case *ssa.Store:
						if eff.rootsOf(x.Addr).params[0] && !isLocalCell(x.Addr) {
							bad = "store at " + w.PosStr(x.Pos())
						}
					case *ssa.MapUpdate:
						if eff.rootsOf(x.Map).params[0] {
							bad = "map update at " + w.PosStr(x.Pos())
						}
					}
				}
			}
			recv := strings.TrimPrefix(types.TypeString(f.Signature.Recv().Type(), func(*types.Package) string { return "" }), "*")
			r.Check(bad == "", "R17.6", recv+".Validate is read-only", f.Pos(), "no store through the receiver", recv+".Validate writes its receiver ("+bad+")")
		}
		if n == 0 {
			panic(undecided{"no Validate methods found in schema/tree.go"})
		}
	})

	r.Rule("R17.7", "a value found for an empty leaf is reported against the leaf: (*empty).Validate strips only the value token from the path whenever the path holds more than the value (len(path) > 1), also for a leaf at module top level", 1)
	r.guard("R17.7", func() {
		sp := w.Pkg("schema")
		fd, _ := w.FuncDecl(w.Method("schema", "empty", "Validate"))
		pathObj := paramObj(sp, fd, 1)
		var cond ast.Expr
		ast.Inspect(fd.Body, func(n ast.Node) bool {
			is, ok := n.(*ast.IfStmt)
			if !ok {
				return true
			}
			for _, ret := range returnsIn(is.Body) {
				if len(ret.Results) == 1 {
					if ce, ok := ret.Results[0].(*ast.CallExpr); ok && len(ce.Args) == 2 {
						if _, isSlice := ast.Unparen(ce.Args[1]).(*ast.SliceExpr); isSlice {
							mentions := false
							ast.Inspect(is.Cond, func(y ast.Node) bool {
								if id, ok := y.(*ast.Ident); ok && sp.TypesInfo.Uses[id] == pathObj {
									mentions = true
								}
								return true
							})
							if mentions {
								cond = is.Cond
							}
						}
					}
				}
			}
			return true
		})
		if cond == nil {
			panic(undecided{"(*empty).Validate: guard of the path-carrying error"})
		}
		ok, bad := true, ""
		func() {
			defer func() {
				if x := recover(); x != nil {
					if u, isU := x.(undecided); isU {
						ok, bad = false, u.why
						return
					}
					panic(x)
				}
			}()
			for _, k := range []int64{2, 3, 6} {
				env := &guardEnv{p: sp, opaque: map[string]constant.Value{"len(" + pathObj.Name() + ")": constant.MakeInt64(k)}}
				if !env.cond(cond) {
					ok, bad = false, fmt.Sprintf("a path of %d tokens gets an error without location", k)
				}
			}
		}()
		r.Check(ok, "R17.7", "(*empty).Validate locates its error", fd.Pos(), "path[:len(path)-1] whenever len(path) > 1", "the error is located only when `"+types.ExprString(cond)+"` ("+bad+"): a value after a top-level empty leaf is reported with an empty path")
	})

	r.Rule("R17.4", "the error for a rejected path encodes the walked elements unambiguously: every error constructor that takes a path renders it with pathutil.Pathstr (percent-encoding), never by joining the raw tokens", 8)
	r.guard("R17.4", func() {
		n := 0
		for _, fd := range funcDecls(p) {
			file := w.Fset.Position(fd.Pos()).Filename
			if !strings.HasSuffix(file, "/errors.go") || fd.Type.Params == nil {
				continue
			}
			// has a []string parameter named path (by type) that is assigned to a .Path field
			var pathObj types.Object
			for i := 0; ; i++ {
				o := paramObj(p, fd, i)
				if o == nil {
					break
				}
				if o.Type().String() == "[]string" {
					pathObj = o
				}
			}
			if pathObj == nil {
				continue
			}
			ast.Inspect(fd.Body, func(x ast.Node) bool {
				as, ok := x.(*ast.AssignStmt)
				if !ok || len(as.Lhs) != 1 {
					return true
				}
				se, ok := as.Lhs[0].(*ast.SelectorExpr)
				if !ok || se.Sel.Name != "Path" {
					return true
				}
				n++
				good := false
				if ce, ok := as.Rhs[0].(*ast.CallExpr); ok {
					if c := calleeOf(p, ce); c != nil && c.Name() == "Pathstr" && strings.HasSuffix(c.Pkg().Path(), "pathutil") {
						// argument derives from the path parameter
						ast.Inspect(ce.Args[0], func(y ast.Node) bool {
							if id, ok := y.(*ast.Ident); ok && p.TypesInfo.Uses[id] == pathObj {
								good = true
							}
							return true
						})
					}
				}
				r.Check(good, "R17.4", fd.Name.Name+" path encoding", as.Pos(), "Path = pathutil.Pathstr(path)", "the error path is built without percent-encoding: a token containing '/', '%' or '+' makes the reported path ambiguous (it no longer identifies the offending element)")
				return true
			})
		}
		if n == 0 {
			r.Fail("R17.4", "error constructors", token.NoPos, "none found")
		}
	})
}

func c17Arms(w *World, r *Report) {
	p := w.Pkg("schema")
	validateI := w.interfaceMethod("schema", "Node", "Validate")
	for _, k := range []string{"tree", "container", "list", "listEntry", "choice", "ycase", "leaf", "leafList"} {
		m := w.TryMethod("schema", k, "Validate")
		if m == nil || recvNamed(m) != k {
			continue
		}
		fd, _ := w.FuncDecl(m)
		pParam := paramObj(p, fd, 2)
		c := k + ".Validate"
		if len(fd.Body.List) < 2 {
			r.Fail("R17.2", c, fd.Pos(), "shape not recognised")
			continue
		}
		// 1. empty-path arm first
		first, isIf := fd.Body.List[0].(*ast.IfStmt)
		emptyOK := false
		cond := ""
		if isIf {
			if be, ok := ast.Unparen(first.Cond).(*ast.BinaryExpr); ok && be.Op == token.EQL {
				if ce, ok := ast.Unparen(be.X).(*ast.CallExpr); ok && len(ce.Args) == 1 && objOfIdent(p, ce.Args[0]) == pParam {
					if v, ok := ConstInt(p, be.Y); ok && v == 0 {
						emptyOK = true
					}
				}
			}
		}
		if !emptyOK {
			r.Fail("R17.2", c, fd.Pos(), "the method does not start with the empty-path arm")
			continue
		}
		// what guards `return nil` inside the empty arm
		var guards []string
		unguardedNil := false
		var walk func(list []ast.Stmt, under []string)
		walk = func(list []ast.Stmt, under []string) {
			for _, s := range list {
				switch x := s.(type) {
				case *ast.ReturnStmt:
					if isNilIdent(p, x.Results[0]) {
						if len(under) == 0 {
							unguardedNil = true
						}
						guards = append(guards, strings.Join(under, "&"))
					}
				case *ast.IfStmt:
					g := condWords(p, x)
					walk(x.Body.List, append(append([]string{}, under...), g))
					if x.Else != nil {
						switch e := x.Else.(type) {
						case *ast.BlockStmt:
							walk(e.List, append(append([]string{}, under...), "else"))
						case *ast.IfStmt:
							walk([]ast.Stmt{e}, under)
						}
					}
				}
			}
		}
		walk(first.Body.List, nil)
		cond = strings.Join(guards, " | ")
		wantEmpty := map[string]string{
			"tree": "", "opdCommand": "", "opdArgument": "*", "opdOption": "*",
			"container": "Presence|AllowIncompletePaths", "list": "AllowIncompletePaths", "listEntry": "AllowIncompletePaths",
			"leafList": "AllowIncompletePaths", "leaf": "Empty | AllowIncompletePaths", "choice": "-", "ycase": "-",
		}[k]
		switch wantEmpty {
		case "*":
			// vendor kinds: not constrained by the property
		case "":
			r.Check(unguardedNil, "R17.2", c+" empty path", first.Pos(), "accepts the empty remainder", "kind must accept an empty remaining path")
		case "-":
			r.Check(len(guards) == 0, "R17.2", c+" empty path", first.Pos(), "never accepts an empty remainder", "a path may end on a choice/case name")
		default:
			r.Check(!unguardedNil && cond == wantEmpty, "R17.2", c+" empty path", first.Pos(), "nil only under "+cond, "a path ending here is accepted under ["+cond+"], the property allows only ["+wantEmpty+"]")
		}
		// 2. remaining tokens: final statement delegates
		last := fd.Body.List[len(fd.Body.List)-1]
		ret, isRet := last.(*ast.ReturnStmt)
		deleg := false
		if isRet && len(ret.Results) == 1 {
			if ce, ok := ret.Results[0].(*ast.CallExpr); ok && len(ce.Args) == 3 {
				if f := calleeOf(p, ce); f == validateI || (f != nil && f.Name() == "Validate") {
					switch k {
					case "leaf", "leafList", "opdArgument", "opdOption":
						deleg = true // Type().Validate(ctx, path, value)
					default:
						// third argument is p[1:]
						if se, ok := ce.Args[2].(*ast.SliceExpr); ok && objOfIdent(p, se.X) == pParam {
							if v, ok := ConstInt(p, se.Low); ok && v == 1 {
								deleg = true
							}
						}
					}
				}
			}
		}
		// no other `return nil` after the empty arm (list: `if len(p)==0 {return nil}` after consuming the key is the entry itself)
		extraNil := 0
		for _, s := range fd.Body.List[1:] {
			for _, rr := range returnsIn(s) {
				if isNilIdent(p, rr.Results[0]) {
					extraNil++
				}
			}
		}
		allowedExtra := 0
		if k == "list" {
			allowedExtra = 1
		}
		r.Check(deleg && extraNil == allowedExtra, "R17.2", c+" remaining tokens", fd.Pos(), "rejects or delegates the rest to the child / the type", fmt.Sprintf("with tokens remaining the method can return nil without delegating (%d such exits) or its final return does not delegate: anything below this node would be accepted", extraNil))
		if k == "leaf" || k == "leafList" {
			// nothing after the value
			after := false
			ast.Inspect(fd.Body, func(x ast.Node) bool {
				if is, ok := x.(*ast.IfStmt); ok {
					if be, ok := ast.Unparen(is.Cond).(*ast.BinaryExpr); ok && be.Op == token.NEQ {
						if v, ok := ConstInt(p, be.Y); ok && v == 0 {
							for _, rr := range returnsIn(is.Body) {
								if !isNilIdent(p, rr.Results[0]) {
									after = true
								}
							}
						}
					}
				}
				return true
			})
			r.Check(after, "R17.2", c+" value is last", fd.Pos(), "tokens after the value ⇒ error", "tokens after a leaf value are accepted")
		}
	}
}

// condWords extracts the method names called in an if condition (or the
// asserted type), joined with '|'.
func condWords(p *packagesPackage, is *ast.IfStmt) string {
	var ws []string
	if is.Init != nil {
		ast.Inspect(is.Init, func(x ast.Node) bool {
			if ta, ok := x.(*ast.TypeAssertExpr); ok && ta.Type != nil {
				ws = append(ws, types.ExprString(ta.Type))
			}
			return true
		})
	}
	ast.Inspect(is.Cond, func(x ast.Node) bool {
		if ce, ok := x.(*ast.CallExpr); ok {
			if se, ok := ce.Fun.(*ast.SelectorExpr); ok {
				ws = append(ws, se.Sel.Name)
			}
		}
		return true
	})
	return strings.Join(ws, "|")
}

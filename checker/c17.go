package main

import (
	"fmt"
	"go/ast"
	"go/constant"
	"go/token"
	"go/types"
	"strings"

	"golang.org/x/tools/go/ssa"
)

func init() { register("C17", checkC17) }

func checkC17(w *World, r *Report) {
	r.NotDecided = []string{
		"which error is returned for a given concrete path (only that every arm delegates or rejects, and how the error path is encoded)",
		"multi-part list keys (the implementation validates the first key only; documented TODO)",
	}
	p := w.Pkg("schema")
	kinds := []string{"tree", "container", "list", "listEntry", "leaf", "leafList", "choice", "ycase", "opdCommand", "opdArgument", "opdOption"}

	r.Rule("R17.1", "every concrete schema node kind declares its own Validate; none falls back to the embedded accept-everything (*node).Validate", 11)
	r.guard("R17.1", func() {
		for _, k := range kinds {
			m := w.TryMethod("schema", k, "Validate")
			own := m != nil && recvNamed(m) == k
			r.Check(own, "R17.1", k+".Validate", token.NoPos, "declared on "+k, "kind '"+k+"' has no Validate of its own: the promoted (*node).Validate accepts any path below it")
		}
	})

	r.Rule("R17.2", "no acceptance without delegation: in each interior kind every path with remaining tokens is either rejected (unknown child) or handed to the child's Validate with the rest; leaf and leaf-list reject any token after the value and validate the value against the type; the empty-path arm accepts only under the stated condition (presence / empty type / incomplete paths allowed); the vendor opd kinds are outside the property", 8)
	r.guard("R17.2", func() { c17Arms(w, r) })

	r.Rule("R17.3", "the token after a list name is always validated as the key value: the key leaf's Validate is called unconditionally (once the path is non-empty) and its error returned, before anything else is looked at", 1)
	r.guard("R17.3", func() {
		m := w.Method("schema", "list", "Validate")
		fd, _ := w.FuncDecl(m)
		ok := c17KeyValidated(w, w.SSAFunc(m)) == ""
		r.Check(ok, "R17.3", "list.Validate validates the key token", fd.Pos(), "top-level `if err := key.Validate(ctx, path, {p[0]}); err != nil { return err }`", "the key value is validated only on some paths (e.g. only when the path ends on the entry): a corrupted key in a longer path is accepted")
	})

	r.Rule("R17.8", "choices and cases are transparent in exactly one way: the child tables are built by addChildrenWithActionChain at three reviewed places — every ordinary node (node.addChildren) lifts the children of a choice's cases and leaves the choice out, a choice lifts the children of its cases, a case lifts the children of nested choices — each with the kind tests in that order", 3)
	r.guard("R17.8", func() {
		sp := w.SSAPkg("schema")
		want := map[string]string{
			"node.addChildren": "includeChildrenOf(choiceNode,caseNode);addToChildrenExcluding(choiceNode)",
			"NewChoice":        "includeChildrenOf(caseNode,choiceNode);addToChildrenExcluding(caseNode)",
			"NewCase":          "includeChildrenOf(choiceNode,caseNode);addToChildrenExcluding(choiceNode)",
		}
		seen := map[string]bool{}
		for _, f := range allFuncs(sp) {
			if isTestFile(w, f.Pos()) {
				continue
			}
			for _, b := range f.Blocks {
				for _, in := range b.Instrs {
					c, ok := in.(*ssa.Call)
					if !ok || c.Call.StaticCallee() == nil || nm(c.Call.StaticCallee()) != "addChildrenWithActionChain" {
						continue
					}
					keyOf := func(g *ssa.Function) string {
						key := strings.TrimPrefix(strings.TrimPrefix(funcKey(g), "(*schema."), "schema.")
						return strings.Replace(key, ").", ".", 1)
					}
					// the actions: calls of the action makers in this function, in order, with the kind tests
					// they get; a kind test that is a parameter of this function is filled in per caller
					type inst struct {
						g    *ssa.Function
						site ssa.CallInstruction
					}
					insts := []inst{{f, c}}
					usesParam := false
					for _, b2 := range f.Blocks {
						for _, in2 := range b2.Instrs {
							if mk, ok := in2.(*ssa.Call); ok && mk.Call.StaticCallee() != nil && (nm(mk.Call.StaticCallee()) == "includeChildrenOf" || nm(mk.Call.StaticCallee()) == "addToChildrenExcluding") {
								for _, a := range mk.Call.Args {
									if ct, ok := a.(*ssa.ChangeType); ok {
										a = ct.X
									}
									if _, isP := a.(*ssa.Parameter); isP {
										usesParam = true
									}
								}
							}
						}
					}
					if usesParam {
						insts = nil
						for _, g := range allFuncs(sp) {
							for _, gb := range g.Blocks {
								for _, gin := range gb.Instrs {
									if gc, ok := gin.(ssa.CallInstruction); ok && gc.Common().StaticCallee() == f {
										insts = append(insts, inst{g, gc})
									}
								}
							}
						}
						if len(insts) == 0 {
							r.Fail("R17.8", keyOf(f)+" builds a child table", c.Pos(), "the kind tests of the action chain are parameters and no caller was found")
						}
					}
					for _, is := range insts {
						key := keyOf(is.g)
						var acts []string
						for _, b2 := range f.Blocks {
							for _, in2 := range b2.Instrs {
								mk, ok := in2.(*ssa.Call)
								if !ok || mk.Call.StaticCallee() == nil {
									continue
								}
								name := nm(mk.Call.StaticCallee())
								if name != "includeChildrenOf" && name != "addToChildrenExcluding" {
									continue
								}
								var args []string
								for _, a := range mk.Call.Args {
									if ct, ok := a.(*ssa.ChangeType); ok {
										a = ct.X
									}
									if prm, isP := a.(*ssa.Parameter); isP && is.g != f {
										for pi, q := range f.Params {
											if q == prm && pi < len(is.site.Common().Args) {
												a = is.site.Common().Args[pi]
											}
										}
										if ct, ok := a.(*ssa.ChangeType); ok {
											a = ct.X
										}
									}
									if fn, ok := a.(*ssa.Function); ok {
										args = append(args, nm(fn))
									} else {
										args = append(args, "?")
									}
								}
								acts = append(acts, name+"("+strings.Join(args, ",")+")")
							}
						}
						got := strings.Join(acts, ";")
						exp, known := want[key]
						seen[key] = true
						if !known {
							r.Fail("R17.8", key+" builds a child table", is.site.Pos(), "a child table is built with its own action chain ("+got+") at a place that is not one of the three reviewed ones: which nodes a path may name below it is decided differently from everywhere else")
							continue
						}
						r.Check(got == exp, "R17.8", key+" builds its child table", is.site.Pos(), exp, "the action chain is "+got+", reviewed as "+exp+": the children of a choice's cases are not lifted into the enclosing node (or the choice itself is kept), so paths through the choice are rejected or a choice becomes nameable")
					}
				}
			}
		}
		for k := range want {
			if !seen[k] {
				r.Fail("R17.8", k+" builds its child table", token.NoPos, "reviewed call of addChildrenWithActionChain no longer found")
			}
		}
	})

	r.Rule("R17.9", "a path that goes on after a leaf or leaf-list value is rejected at the first token too many: leaf.Validate and leafList.Validate name p[1] (the first token after the value) in the path-invalid error, not a later one", 2)
	r.guard("R17.9", func() {
		for _, k := range []string{"leaf", "leafList"} {
			f := w.SSAFunc(w.Method("schema", k, "Validate"))
			if f == nil || len(f.Params) != 4 {
				panic(undecided{"schema." + k + ".Validate"})
			}
			pP := ssa.Value(f.Params[3])
			n := 0
			why := ""
			for _, b := range f.Blocks {
				for _, in := range b.Instrs {
					c, ok := in.(*ssa.Call)
					if !ok || c.Call.StaticCallee() == nil || nm(c.Call.StaticCallee()) != "NewPathInvalidError" || len(c.Call.Args) != 2 {
						continue
					}
					n++
					good := false
					if ld, ok := c.Call.Args[1].(*ssa.UnOp); ok && ld.Op == token.MUL {
						if ia, ok := ld.X.(*ssa.IndexAddr); ok {
							idx, isK := intConstOf(ia.Index)
							switch x := ia.X.(type) {
							case *ssa.Parameter:
								good = isK && idx == 1 && ia.X == pP
							case *ssa.Slice:
								lo, isLo := intConstOf(x.Low)
								good = isK && idx == 0 && x.X == pP && isLo && lo == 1 && x.High == nil
							}
						}
					}
					if !good {
						why = "the element named is `" + c.Call.Args[1].String() + "`"
					}
				}
			}
			if n == 0 {
				panic(undecided{k + ".Validate: path-invalid error"})
			}
			r.Check(why == "", "R17.9", k+".Validate names the first token too many", f.Pos(), "NewPathInvalidError(path, p[1])", why+", not the first token after the value: for a path two or more tokens too long the error points at the wrong element")
		}
	})

	r.Rule("R17.5", "an error names its element whenever there is one: each error constructor in schema/errors.go that sets Path from its path argument does so unconditionally or under a guard that is true for every non-empty path", 6)
	r.guard("R17.5", func() {
		sp := w.Pkg("schema")
		n := 0
		for _, fd := range funcDecls(sp) {
			if fd.Body == nil || !strings.HasSuffix(w.Fset.Position(fd.Pos()).Filename, "/errors.go") {
				continue
			}
			// parameter named path of type []string
			var pathObj types.Object
			for _, fl := range fd.Type.Params.List {
				for _, nm := range fl.Names {
					if t := sp.TypesInfo.TypeOf(fl.Type); t != nil && t.String() == "[]string" {
						pathObj = sp.TypesInfo.Defs[nm]
					}
				}
			}
			if pathObj == nil {
				continue
			}
			// statements `x.Path = pathutil.Pathstr(path)` at top level or inside an if
			// named intermediates of the constructor (`last := len(path) - 1`)
			locals := map[types.Object]ast.Expr{}
			for _, st := range fd.Body.List {
				if as, ok := st.(*ast.AssignStmt); ok && as.Tok == token.DEFINE && len(as.Lhs) == 1 && len(as.Rhs) == 1 {
					if id, ok := as.Lhs[0].(*ast.Ident); ok {
						locals[sp.TypesInfo.Defs[id]] = as.Rhs[0]
					}
				}
			}
			var assigned ast.Expr // the right-hand side of the Path assignment looked at
			check := func(cond ast.Expr, pos token.Pos) {
				n++
				name := funcDeclName(fd)
				if cond == nil {
					r.OK("R17.5", name+" sets Path", pos, "unconditionally")
					return
				}
				ok, bad := true, ""
				func() {
					defer func() {
						if x := recover(); x != nil {
							if u, isU := x.(undecided); isU {
								ok, bad = false, u.why
								return
							}
							panic(x)
						}
					}()
					for _, k := range []int64{1, 2, 3, 9} {
						env := &guardEnv{p: sp, locals: locals, opaque: map[string]constant.Value{"len(" + pathObj.Name() + ")": constant.MakeInt64(k)}}
						if !env.cond(cond) {
							// nothing is lost when what would have been recorded is the empty prefix path[:0]
							empty := false
							ast.Inspect(assigned, func(x ast.Node) bool {
								if se, isS := x.(*ast.SliceExpr); isS && se.Low == nil && se.High != nil {
									if id, isI := ast.Unparen(se.X).(*ast.Ident); isI && sp.TypesInfo.Uses[id] == pathObj {
										if hv := env.val(se.High); hv.Kind() == constant.Int && constant.Sign(hv) == 0 {
											empty = true
										}
									}
								}
								return true
							})
							if !empty {
								ok, bad = false, fmt.Sprintf("a path of %d element(s) is not recorded", k)
							}
						}
					}
				}()
				r.Check(ok, "R17.5", name+" sets Path", pos, "whenever the path is non-empty", "the error's Path is set only when `"+types.ExprString(cond)+"` ("+bad+"): the rejection no longer identifies the offending element")
			}
			isPathAssign := func(s ast.Stmt) bool {
				as, ok := s.(*ast.AssignStmt)
				if !ok || len(as.Lhs) != 1 {
					return false
				}
				se, ok := as.Lhs[0].(*ast.SelectorExpr)
				if !ok || se.Sel.Name != "Path" {
					return false
				}
				uses := false
				ast.Inspect(as.Rhs[0], func(x ast.Node) bool {
					if id, ok := x.(*ast.Ident); ok && sp.TypesInfo.Uses[id] == pathObj {
						uses = true
					}
					return true
				})
				return uses
			}
			for _, st := range fd.Body.List {
				if isPathAssign(st) {
					check(nil, st.Pos())
				}
				if is, ok := st.(*ast.IfStmt); ok && is.Init == nil {
					for _, s2 := range is.Body.List {
						if isPathAssign(s2) {
							assigned = s2.(*ast.AssignStmt).Rhs[0]
							check(is.Cond, s2.Pos())
						}
					}
				}
			}
		}
		if n == 0 {
			panic(undecided{"no error constructor sets Path from a path argument"})
		}
	})

	r.Rule("R17.6", "path validation is read-only: no Validate method of a schema node kind stores through its receiver (the schema is shared by every path checked against it; a memoised verdict would make one answer depend on an earlier question)", 8)
	r.guard("R17.6", func() {
		eff := NewEffects(w)
		n := 0
		for _, f := range allFuncs(w.SSAPkg("schema")) {
			if nm(f) != "Validate" || f.Signature.Recv() == nil || f.Parent() != nil || len(f.Params) == 0 {
				continue
			}
			if !strings.HasSuffix(w.Fset.Position(f.Pos()).Filename, "/tree.go") {
				continue
			}
			if _, isPtr := f.Params[0].Type().(*types.Pointer); !isPtr {
				continue
			}
			n++
			bad := ""
			for _, b := range f.Blocks {
				for _, in := range b.Instrs {
					switch x := in.(type) {
					case *ssa.Store:
						if eff.rootsOf(x.Addr).params[0] && !isLocalCell(x.Addr) {
							bad = "store at " + w.PosStr(x.Pos())
						}
					case *ssa.MapUpdate:
						if eff.rootsOf(x.Map).params[0] {
							bad = "map update at " + w.PosStr(x.Pos())
						}
					}
				}
			}
			recv := strings.TrimPrefix(types.TypeString(f.Signature.Recv().Type(), func(*types.Package) string { return "" }), "*")
			r.Check(bad == "", "R17.6", recv+".Validate is read-only", f.Pos(), "no store through the receiver", recv+".Validate writes its receiver ("+bad+")")
		}
		if n == 0 {
			panic(undecided{"no Validate methods found in schema/tree.go"})
		}
	})

	r.Rule("R17.7", "a value found for an empty leaf is reported against the leaf: (*empty).Validate strips only the value token from the path whenever the path holds more than the value (len(path) > 1), also for a leaf at module top level", 1)
	r.guard("R17.7", func() {
		_, located, pos := emptyValidateTable(w)
		r.Check(located == "", "R17.7", "(*empty).Validate locates its error", pos, "path[:len(path)-1] whenever len(path) > 1", "the error is not located exactly when the path holds more than the value ("+located+"): a value after a top-level empty leaf is reported with an empty path")
	})

	r.Rule("R17.4", "the error for a rejected path encodes the walked elements unambiguously: every error constructor that takes a path renders it with pathutil.Pathstr (percent-encoding), never by joining the raw tokens", 8)
	r.guard("R17.4", func() {
		n := 0
		for _, fd := range funcDecls(p) {
			file := w.Fset.Position(fd.Pos()).Filename
			if !strings.HasSuffix(file, "/errors.go") || fd.Type.Params == nil {
				continue
			}
			// has a []string parameter named path (by type) that is assigned to a .Path field
			var pathObj types.Object
			for i := 0; ; i++ {
				o := paramObj(p, fd, i)
				if o == nil {
					break
				}
				if o.Type().String() == "[]string" {
					pathObj = o
				}
			}
			if pathObj == nil {
				continue
			}
			ast.Inspect(fd.Body, func(x ast.Node) bool {
				as, ok := x.(*ast.AssignStmt)
				if !ok || len(as.Lhs) != 1 {
					return true
				}
				se, ok := as.Lhs[0].(*ast.SelectorExpr)
				if !ok || se.Sel.Name != "Path" {
					return true
				}
				n++
				good := false
				if ce, ok := as.Rhs[0].(*ast.CallExpr); ok {
					if c := calleeOf(p, ce); c != nil && nm(c) == "Pathstr" && strings.HasSuffix(c.Pkg().Path(), "pathutil") {
						// argument derives from the path parameter
						ast.Inspect(ce.Args[0], func(y ast.Node) bool {
							if id, ok := y.(*ast.Ident); ok && p.TypesInfo.Uses[id] == pathObj {
								good = true
							}
							return true
						})
					}
				}
				r.Check(good, "R17.4", fd.Name.Name+" path encoding", as.Pos(), "Path = pathutil.Pathstr(path)", "the error path is built without percent-encoding: a token containing '/', '%' or '+' makes the reported path ambiguous (it no longer identifies the offending element)")
				return true
			})
		}
		if n == 0 {
			r.Fail("R17.4", "error constructors", token.NoPos, "none found")
		}
	})
}

// c17KeyValidated: every way out of list.Validate (helpers that are handed
// the work included) that is taken with tokens remaining either returns the
// error of the key leaf's Validate on the first token, or is taken only when
// that call returned nil.
func c17KeyValidated(w *World, f *ssa.Function) string {
	if f == nil || len(f.Params) != 4 || len(ssaLoops(f)) > 0 {
		return "shape not recognised"
	}
	pP := f.Params[3]
	sym := NewSym(w)
	sym.Expand = true
	sym.ExpandReturns = true
	isHead := func(v ssa.Value, ctx *symCtx) bool { // p[0]
		for _, o := range sym.Origins(v, ctx, 0) {
			ld, ok := o.v.(*ssa.UnOp)
			if !ok || ld.Op != token.MUL {
				return false
			}
			ia, ok := ld.X.(*ssa.IndexAddr)
			if !ok || sym.Resolve(ia.X, o.ctx) != ssa.Value(pP) {
				return false
			}
			if zero, ok := intConstOf(ia.Index); !ok || zero != 0 {
				return false
			}
		}
		return true
	}
	// the key call, in the method or in a helper it calls
	var keyCall *ssa.Call
	var visit func(fn *ssa.Function, ctx *symCtx, depth int)
	visit = func(fn *ssa.Function, ctx *symCtx, depth int) {
		for _, b := range fn.Blocks {
			for _, in := range b.Instrs {
				c, ok := in.(*ssa.Call)
				if !ok {
					continue
				}
				if c.Call.IsInvoke() && nm(c.Call.Method) == "Validate" && len(c.Call.Args) == 3 {
					sl, isSl := c.Call.Args[2].(*ssa.Slice)
					// the receiver is a child looked up by name (possibly by a helper)
					ros := sym.Origins(c.Call.Value, ctx, 0)
					isLk := len(ros) > 0
					for _, o := range ros {
						lk, ok := o.v.(*ssa.Lookup)
						isLk = isLk && ok && loadedFieldName(lk.X) == "children"
					}
					if isSl && isLk {
						if lits := sliceLiteral(sl); len(lits) == 1 && isHead(lits[0], ctx) {
							keyCall = c
						}
					}
					continue
				}
				if g := c.Call.StaticCallee(); g != nil && depth < 2 && g != fn && g.Blocks != nil && len(ssaLoops(g)) == 0 && strings.HasPrefix(pkgPathOf(g), modPath) && g.Pkg == f.Pkg {
					visit(g, &symCtx{call: c, parent: ctx}, depth+1)
				}
			}
		}
	}
	visit(f, nil, 0)
	if keyCall == nil {
		return "no call of the key leaf's Validate on the first token"
	}
	isKey := func(v ssa.Value, ctx *symCtx) bool {
		os := sym.Origins(v, ctx, 0)
		for _, o := range os {
			if o.v != ssa.Value(keyCall) {
				return false
			}
		}
		return len(os) > 0
	}
	classify := func(a *pcAtom) string {
		if bo, ok := a.v.(*ssa.BinOp); ok && a.subj != "" && a.set.equal(isetOf(0)) {
			for _, side := range []ssa.Value{bo.X, bo.Y} {
				if arg, ok := isLenCall(side); ok && sym.Resolve(arg, a.ctx) == ssa.Value(pP) {
					return "empty"
				}
			}
		}
		if a.op == token.EQL && a.x != nil && a.y != nil {
			if (isNilConst(a.y) && isKey(a.x, a.ctx)) || (isNilConst(a.x) && isKey(a.y, a.ctx)) {
				return "keyok"
			}
		}
		return ""
	}
	for _, row := range sym.retTable(f, 0) {
		if isKey(row.val, row.ctx) {
			continue // the key leaf's own verdict
		}
		if msg := pcImplies(row.cond, classify, func(env map[string]bool) bool { return env["empty"] || env["keyok"] }); msg != "" {
			return "an exit is taken with tokens remaining whatever the key leaf says: " + msg
		}
	}
	return ""
}

func c17Arms(w *World, r *Report) {
	for _, k := range []string{"tree", "container", "list", "listEntry", "choice", "ycase", "leaf", "leafList"} {
		m := w.TryMethod("schema", k, "Validate")
		if m == nil || recvNamed(m) != k {
			continue
		}
		f := w.SSAFunc(m)
		c := k + ".Validate"
		if f == nil || len(f.Params) != 4 || len(ssaLoops(f)) > 0 {
			r.Fail("R17.2", c, m.Pos(), "shape not recognised")
			continue
		}
		sym := NewSym(w)
		sym.ExpandReturns = true // `return n.validateRest(ctx, path, p)`: the helper's exits are this method's
		ctxP, pP := f.Params[1], f.Params[3]
		lenOf := func(a *pcAtom) (ssa.Value, bool) {
			bo, ok := a.v.(*ssa.BinOp)
			if !ok || a.subj == "" {
				return nil, false
			}
			for _, side := range []ssa.Value{bo.X, bo.Y} {
				if arg, ok := isLenCall(side); ok {
					return sym.Resolve(arg, a.ctx), true
				}
			}
			return nil, false
		}
		isRest := func(v ssa.Value) bool { // p[1:]
			sl, ok := v.(*ssa.Slice)
			if !ok || sl.X != ssa.Value(pP) || sl.High != nil {
				return false
			}
			one, ok := intConstOf(sl.Low)
			return ok && one == 1
		}
		classify := func(a *pcAtom) string {
			if arg, ok := lenOf(a); ok && a.set.equal(isetOf(0)) {
				if arg == ssa.Value(pP) {
					return "empty"
				}
				if isRest(arg) {
					return "restempty"
				}
			}
			if call, ok := a.v.(*ssa.Call); ok {
				if call.Call.IsInvoke() && nm(call.Call.Method) == "AllowIncompletePaths" && sym.Resolve(call.Call.Value, a.ctx) == ssa.Value(ctxP) {
					return "inc"
				}
				if g := call.Call.StaticCallee(); g != nil && nm(g) == "Presence" {
					return "presence"
				}
			}
			// Presence() read through: the container's presence flag
			if ld, ok := a.v.(*ssa.UnOp); ok && ld.Op == token.MUL {
				if fa, ok := ld.X.(*ssa.FieldAddr); ok {
					st := fa.X.Type().Underlying().(*types.Pointer).Elem().Underlying().(*types.Struct)
					if nm(st.Field(fa.Field)) == "presence" {
						return "presence"
					}
				}
			}
			if ex, ok := a.v.(*ssa.Extract); ok && ex.Index == 1 {
				if ta, ok := ex.Tuple.(*ssa.TypeAssert); ok {
					if n, ok := ta.AssertedType.(*types.Named); ok && nm(n.Obj()) == "Empty" {
						return "etype"
					}
				}
			}
			return ""
		}
		rows := sym.retTable(f, 0)
		nilCond := pcZ
		deleg := false
		var delegCond *pcF
		for _, row := range rows {
			if isNilConst(row.val) {
				nilCond = pcOrF(nilCond, row.cond)
				continue
			}
			if call, ok := row.val.(*ssa.Call); ok && call.Call.IsInvoke() && nm(call.Call.Method) == "Validate" && len(call.Call.Args) == 3 {
				switch k {
				case "leaf", "leafList":
					deleg, delegCond = true, row.cond // Type().Validate(ctx, path, value)
				default:
					// the rest of the tokens: x[1:] of the tokens still to go
					if sl, ok := call.Call.Args[2].(*ssa.Slice); ok && sl.High == nil {
						if one, ok := intConstOf(sl.Low); ok && one == 1 && (sym.Resolve(sl.X, row.ctx) == ssa.Value(pP) || isRest(sym.Resolve(sl.X, row.ctx))) {
							deleg = true
						}
					}
				}
			}
			// a helper of the package that is handed the tokens and delegates them
			if call, ok := row.val.(*ssa.Call); ok && !call.Call.IsInvoke() {
				if h := call.Call.StaticCallee(); h != nil && h.Pkg == f.Pkg && h.Blocks != nil && len(ssaLoops(h)) == 0 {
					for i, a := range call.Call.Args {
						if a != ssa.Value(pP) || i >= len(h.Params) {
							continue
						}
						hp := h.Params[i]
						hd, hnil := false, false
						for _, hrow := range NewSym(w).retTable(h, 0) {
							if isNilConst(hrow.val) {
								hnil = true
							}
							if hc, ok := hrow.val.(*ssa.Call); ok && hc.Call.IsInvoke() && nm(hc.Call.Method) == "Validate" && len(hc.Call.Args) == 3 {
								if sl, ok := hc.Call.Args[2].(*ssa.Slice); ok && sl.High == nil && sl.X == ssa.Value(hp) {
									if one, ok := intConstOf(sl.Low); ok && one == 1 {
										hd = true
									}
								}
							}
						}
						if hd && !hnil {
							deleg = true
						}
					}
				}
			}
		}
		// 1. the empty remainder
		want := map[string]func(env map[string]bool) bool{
			"tree":      func(env map[string]bool) bool { return true },
			"container": func(env map[string]bool) bool { return env["presence"] || env["inc"] },
			"list":      func(env map[string]bool) bool { return env["inc"] },
			"listEntry": func(env map[string]bool) bool { return env["inc"] },
			"leafList":  func(env map[string]bool) bool { return env["inc"] },
			"leaf":      func(env map[string]bool) bool { return env["etype"] || env["inc"] },
			"choice":    func(env map[string]bool) bool { return false },
			"ycase":     func(env map[string]bool) bool { return false },
		}[k]
		descr := map[string]string{"tree": "always", "container": "Presence | AllowIncompletePaths", "list": "AllowIncompletePaths", "listEntry": "AllowIncompletePaths", "leafList": "AllowIncompletePaths", "leaf": "Empty | AllowIncompletePaths", "choice": "never", "ycase": "never"}[k]
		msg := pcCompareWhere(nilCond, classify, func(env map[string]bool) bool { return env["empty"] }, want)
		r.Check(msg == "", "R17.2", c+" empty path", f.Pos(), "a path ending here is accepted: "+descr, "a path ending here is not accepted exactly under ["+descr+"]: "+msg)
		// 2. tokens remaining: nil only where the property says so, and the rest is delegated
		msg2 := pcImplies(nilCond, classify, func(env map[string]bool) bool {
			return env["empty"] || (k == "list" && env["restempty"])
		})
		why := ""
		if msg2 != "" {
			why = "with tokens remaining the method can return nil without delegating (" + msg2 + ")"
		} else if !deleg {
			why = "no exit hands the remaining tokens to the child / the type"
		}
		r.Check(why == "", "R17.2", c+" remaining tokens", f.Pos(), "rejects or delegates the rest to the child / the type", why+": anything below this node would be accepted")
		if k == "leaf" || k == "leafList" {
			msg3 := "no delegation to the type"
			if delegCond != nil {
				msg3 = pcImplies(delegCond, classify, func(env map[string]bool) bool { return env["restempty"] && !env["empty"] })
			}
			r.Check(msg3 == "", "R17.2", c+" value is last", f.Pos(), "tokens after the value ⇒ error", "tokens after a leaf value are accepted: "+msg3)
		}
	}
}

// condWords extracts the method names called in an if condition (or the
// asserted type), joined with '|'.
func condWords(p *packagesPackage, is *ast.IfStmt) string {
	var ws []string
	if is.Init != nil {
		ast.Inspect(is.Init, func(x ast.Node) bool {
			if ta, ok := x.(*ast.TypeAssertExpr); ok && ta.Type != nil {
				ws = append(ws, types.ExprString(ta.Type))
			}
			return true
		})
	}
	ast.Inspect(is.Cond, func(x ast.Node) bool {
		if ce, ok := x.(*ast.CallExpr); ok {
			if se, ok := ce.Fun.(*ast.SelectorExpr); ok {
				ws = append(ws, se.Sel.Name)
			}
		}
		return true
	})
	return strings.Join(ws, "|")
}

package main

import (
	"fmt"
	"go/ast"
	"go/constant"
	"go/token"
	"go/types"
	"sort"
	"strings"

	"golang.org/x/tools/go/packages"
	"golang.org/x/tools/go/ssa"
)

func init() { register("C01", checkC01) }

// ---- ordering truth tables (finite domain: how two doubles can compare) ----

type ordCase int

const (
	ordLT ordCase = iota
	ordEQ
	ordGT
	ordNaNL // left operand NaN
	ordNaNR
	ordNaNB
	nOrd
)

var ordNames = []string{"L<R", "L=R", "L>R", "L=NaN", "R=NaN", "both NaN"}

// ordEnv resolves an expression to "L", "R" or "".
type ordEnv func(e ast.Expr) string

// evalOrd evaluates a boolean expression over comparisons of L and R.
func evalOrd(p *packages.Package, e ast.Expr, env ordEnv, c ordCase) (val bool, ok bool) {
	e = ast.Unparen(e)
	if v := ConstOf(p, e); v != nil && v.Kind() == constant.Bool {
		return constant.BoolVal(v), true
	}
	switch x := e.(type) {
	case *ast.UnaryExpr:
		if x.Op == token.NOT {
			v, ok := evalOrd(p, x.X, env, c)
			return !v, ok
		}
	case *ast.BinaryExpr:
		switch x.Op {
		case token.LAND, token.LOR:
			a, ok1 := evalOrd(p, x.X, env, c)
			b, ok2 := evalOrd(p, x.Y, env, c)
			if x.Op == token.LAND {
				return a && b, ok1 && ok2
			}
			return a || b, ok1 && ok2
		case token.LSS, token.LEQ, token.GTR, token.GEQ, token.EQL, token.NEQ:
			a, b := env(x.X), env(x.Y)
			if a == "" || b == "" || a == b {
				return false, false
			}
			cc := c
			if a == "R" { // swap orientation
				switch c {
				case ordLT:
					cc = ordGT
				case ordGT:
					cc = ordLT
				}
			}
			if cc >= ordNaNL {
				return x.Op == token.NEQ, true
			}
			switch x.Op {
			case token.LSS:
				return cc == ordLT, true
			case token.LEQ:
				return cc == ordLT || cc == ordEQ, true
			case token.GTR:
				return cc == ordGT, true
			case token.GEQ:
				return cc == ordGT || cc == ordEQ, true
			case token.EQL:
				return cc == ordEQ, true
			case token.NEQ:
				return cc != ordEQ, true
			}
		}
	case *ast.CallExpr:
		if f := calleeOf(p, x); f != nil && f.FullName() == "math.IsNaN" && len(x.Args) == 1 {
			switch env(x.Args[0]) {
			case "L":
				return c == ordNaNL || c == ordNaNB, true
			case "R":
				return c == ordNaNR || c == ordNaNB, true
			}
		}
	}
	return false, false
}

var ordSpec = map[string][nOrd]bool{
	"<":  {true, false, false, false, false, false},
	"<=": {true, true, false, false, false, false},
	">":  {false, false, true, false, false, false},
	">=": {false, true, true, false, false, false},
	"=":  {false, true, false, false, false, false},
	"!=": {true, false, true, true, true, true},
}

// closureInfo describes one comparison closure (func(d1, d2 Datum) bool).
type closureInfo struct {
	lit  *ast.FuncLit
	name string
}

// conversion method applied to a datum parameter in e: returns param index and method name.
func datumConv(p *packages.Package, fl *ast.FuncLit, e ast.Expr) (int, string) {
	ce, ok := ast.Unparen(e).(*ast.CallExpr)
	if !ok {
		return -1, ""
	}
	se, ok := ce.Fun.(*ast.SelectorExpr)
	if !ok {
		return -1, ""
	}
	obj := objOfIdent(p, se.X)
	if obj == nil {
		return -1, ""
	}
	k := 0
	for _, f := range fl.Type.Params.List {
		for _, n := range f.Names {
			if p.TypesInfo.Defs[n] == obj {
				return k, se.Sel.Name
			}
			k++
		}
	}
	return -1, ""
}

// closureEnv builds the L/R environment of a closure body for conversion method conv.
func closureEnv(p *packages.Package, fl *ast.FuncLit, conv string) ordEnv {
	locals := map[types.Object]string{}
	ast.Inspect(fl.Body, func(n ast.Node) bool {
		if as, ok := n.(*ast.AssignStmt); ok && len(as.Lhs) == 1 && len(as.Rhs) == 1 {
			if i, m := datumConv(p, fl, as.Rhs[0]); i >= 0 && m == conv {
				if o := objOfIdent(p, as.Lhs[0]); o != nil {
					locals[o] = []string{"L", "R"}[i]
				}
			}
		}
		return true
	})
	return func(e ast.Expr) string {
		if i, m := datumConv(p, fl, e); i >= 0 && i < 2 && m == conv {
			return []string{"L", "R"}[i]
		}
		if o := objOfIdent(p, e); o != nil {
			return locals[o]
		}
		return ""
	}
}

func singleReturnExpr(fl *ast.FuncLit) ast.Expr {
	rets := returnsIn(fl.Body)
	if len(rets) != 1 || len(rets[0].Results) != 1 {
		return nil
	}
	return rets[0].Results[0]
}

func checkC01(w *World, r *Report) {
	r.NotDecided = []string{
		"numeric results beyond the class/ordering level, string function results on particular strings",
		"values supplied by a data tree (Entry is opaque) and arbitrary nesting depth: the rules are per instruction and per conversion",
		"node-set (legacy engine) comparisons beyond operand order and the empty-set rule",
	}
	r.Assumptions = []string{"Go's float64 operators implement IEEE 754 (language spec)", "XPath 1.0 tables transcribed in checker/c01.go"}

	r.Rule("R01.1", "operator wiring: each operator production emits the instruction whose body applies the XPath operator to (left, right) in that order — arithmetic as the Go float operator / math.Mod on (second-popped, first-popped), comparisons by an ordering truth table over {<,=,>,NaN}, and/or as && / ||, unary minus as negation", 14)
	r.guard("R01.1", func() { c01Wiring(w, r) })

	r.Rule("R01.2", "operand type selection: = and != test node-set, then boolean, then number, then string (XPath §3.4); relational operators compare every non-node-set pair as numbers; an empty node-set makes every comparison false before any comparator runs; node-set comparison is existential; operand order is preserved from the stack to the comparator", 8)
	r.guard("R01.2", func() { c01TypeSelection(w, r) })

	r.Rule("R01.3", "conversions: boolean(number) is false exactly for ±0 and NaN, boolean(string) is non-emptiness, number(boolean) is 1/0, string(boolean) is true/false, string(number) special-cases 0, ±Infinity; round is floor(x), plus one iff the fraction is at least ½", 6)
	r.guard("R01.3", func() { c01Conversions(w, r) })

	r.Rule("R01.4", "function table: for every XPath 1.0 core function present, key = symbol name, declared argument checkers and return checker equal the §4 signature, the body's own verifyArgNumAndTypes list agrees, the body reads only declared arguments, and the result is built from the defining stdlib operation on the arguments in order", 25)
	r.guard("R01.4", func() { c01FunctionTable(w, r) })

	r.Rule("R01.5", "conversion API language: no Go API whose accepted/produced language strictly contains the XPath production sits on a conversion path (ParseFloat for string→number, %v/%g/'e' for number→string, byte length/indices for character-indexed functions)", 5)
	r.guard("R01.5", func() { c01ApiLanguage(w, r) })

	r.Rule("R01.9", "a string becomes a number through the floating-point reader alone: numberFromString (and what it calls in the module) uses no integer parser — an int64 has no negative zero and ends at 2^63, so an integer short cut changes number('-0') and long digit strings", 1)
	r.guard("R01.9", func() {
		noIntegerParser(w, r, "R01.9", w.SSAFunc(w.Func("xpath", "numberFromString")), "the value of a numeric string", "-0 loses its sign (1 div number('-0') becomes +Infinity) and integers of 19 or more digits are read differently from the same number written with a decimal point")
	})

	r.Rule("R01.7", "no implementation-dependent float→integer conversion on a value path: every conversion of a float64 to an integer type in package xpath is bounded on both sides by comparisons that hold on the path, or is a reviewed site", 1)
	r.guard("R01.7", func() { c01FloatToInt(w, r) })

	r.Rule("R01.8", "byte offsets and character counts are never mixed: in package xpath no addition, subtraction or comparison combines a byte quantity (strings.Index*, len(string)) with a character quantity (RuneCountInString, len([]rune)), no string is sliced by a character quantity and no []rune by a byte quantity", 1)
	r.guard("R01.8", func() { c01Units(w, r) })

	r.Rule("R01.6", "result accessors: GetBoolResult/GetNumResult/GetLiteralResult return the run error first, then 'no result', then convert with Boolean/Number/Literal respectively", 3)
	r.guard("R01.6", func() { resultAccessors(w, r, "R01.6") })
}

// operator → builder method expected in the expr grammar, and the semantic class
var opSpec = []struct {
	tok, kind, op string
}{
	{"OR", "bool", "||"}, {"AND", "bool", "&&"},
	{"EQ", "cmp", "="}, {"NE", "cmp", "!="}, {"LT", "cmp", "<"}, {"LE", "cmp", "<="}, {"GT", "cmp", ">"}, {"GE", "cmp", ">="},
	{"'+'", "arith", "+"}, {"'-'", "arith", "-"}, {"'*'", "arith", "*"}, {"DIV", "arith", "/"}, {"MOD", "arith", "mod"},
	{"'-'u", "neg", "-"},
}

func c01Wiring(w *World, r *Report) {
	g := w.Gram["expr"]
	gi := w.GenInfo("expr")
	codeFn := w.Method("xpath", "ProgBuilder", "CodeFn")
	levels, _, _ := stratify(g, "Expr")
	prodOf := map[string]*Prod{}
	for _, l := range levels {
		for _, p := range l.prods {
			key := ""
			if len(p.RHS) == 3 {
				key = p.RHS[1].Name
			} else if len(p.RHS) == 2 {
				key = p.RHS[0].Name + "u"
			}
			prodOf[key] = p
		}
	}
	for _, os := range opSpec {
		c := "operator " + os.tok
		p := prodOf[os.tok]
		if p == nil {
			r.Fail("R01.1", c, token.NoPos, "no production for this operator on the stratified chain")
			continue
		}
		var m *types.Func
		for _, bc := range gi.BuilderCalls(p.Num) {
			if bc.Callee == codeFn && len(bc.Call.Args) == 2 {
				m = MethodValue(bc.Pkg, bc.Call.Args[0])
			}
		}
		if m == nil {
			r.Fail("R01.1", c, token.NoPos, "the production's action does not pass a ProgBuilder method to CodeFn")
			continue
		}
		var problems []string
		switch os.kind {
		case "arith", "neg":
			problems = c01Arith(w, m, os.kind, os.op)
		case "bool":
			problems = c01Bool(w, m, os.op)
		case "cmp":
			problems = c01Cmp(w, m, os.op)
		}
		fd, _ := w.FuncDecl(m)
		if len(problems) == 0 {
			r.OK("R01.1", c, fd.Pos(), "→ ProgBuilder."+m.Name()+" applies "+os.op+" to (left,right)")
		} else {
			for _, pr := range problems {
				r.Fail("R01.1", c+" → ProgBuilder."+m.Name(), fd.Pos(), pr)
			}
		}
	}
}

// noIntegerParser: f and the module functions it reaches call none of
// strconv.ParseInt / ParseUint / Atoi (nor big.Int parsing): the text is read
// as a float only.
func noIntegerParser(w *World, r *Report, rule string, f *ssa.Function, what, consequence string) {
	if f == nil {
		panic(undecided{rule + ": function not found"})
	}
	var bad []string
	for g := range calleesDeep(f, 3) {
		switch g.String() {
		case "strconv.ParseInt", "strconv.ParseUint", "strconv.Atoi", "(*math/big.Int).SetString", "(*math/big.Float).SetString":
			bad = append(bad, g.String())
		}
	}
	sort.Strings(bad)
	r.Check(len(bad) == 0, rule, funcKey(f)+" reads numbers as floats only", f.Pos(), "no integer parser on the path", what+" is taken from "+strings.Join(bad, ", ")+" on some path: "+consequence)
}

// c01Arith inspects the SSA of an arithmetic instruction.
func c01Arith(w *World, m *types.Func, kind, op string) []string {
	fn := w.SSAFunc(m)
	popNumber := w.SSAFunc(w.Method("xpath", "context", "popNumber"))
	pushDatum := w.SSAFunc(w.Method("xpath", "context", "pushDatum"))
	newNum := w.SSAFunc(w.Func("xpath", "NewNumDatum"))
	var pops []ssa.Value
	var pushes []*ssa.Call
	for _, b := range fn.Blocks {
		for _, in := range b.Instrs {
			if c, ok := in.(*ssa.Call); ok && c.Call.StaticCallee() == pushDatum {
				pushes = append(pushes, c)
			}
		}
	}
	evs, atEntry := popEvents(w, fn, map[*ssa.Function]bool{popNumber: true})
	for _, e := range evs {
		pops = append(pops, e.val)
	}
	want := 2
	if kind == "neg" {
		want = 1
	}
	if len(pops) != want {
		return []string{fmt.Sprintf("pops %d numbers, expected %d", len(pops), want)}
	}
	for _, pv := range pops {
		if !atEntry || pv == nil {
			return []string{"operands are not popped unconditionally at entry"}
		}
	}
	if len(pushes) == 0 {
		return []string{"pushes no result"}
	}
	var probs []string
	for _, ps := range pushes {
		// argument: NewNumDatum(v)
		args := ps.Call.Args
		v := args[len(args)-1]
		nc, ok := v.(*ssa.Call)
		if !ok || nc.Call.StaticCallee() != newNum {
			probs = append(probs, "pushes something that is not NewNumDatum(...)")
			continue
		}
		val := nc.Call.Args[0]
		okv := false
		descr := ""
		switch x := val.(type) {
		case *ssa.BinOp:
			descr = fmt.Sprintf("%s %s %s", operandName(x.X, pops), x.Op, operandName(x.Y, pops))
			if kind == "arith" && op != "mod" {
				wantOp := map[string]token.Token{"+": token.ADD, "-": token.SUB, "*": token.MUL, "/": token.QUO}[op]
				okv = x.Op == wantOp && x.X == pops[1] && x.Y == pops[0]
				if (op == "+" || op == "*") && x.Op == wantOp && x.X == pops[0] && x.Y == pops[1] {
					okv = true // IEEE 754 addition and multiplication are commutative
				}
			}
		case *ssa.UnOp:
			descr = fmt.Sprintf("%s%s", x.Op, operandName(x.X, pops))
			okv = kind == "neg" && x.Op == token.SUB && x.X == pops[0]
		case *ssa.Call:
			if c := x.Call.StaticCallee(); c != nil {
				descr = c.String() + "(...)"
				if op == "mod" && c.String() == "math.Mod" {
					okv = x.Call.Args[0] == pops[1] && x.Call.Args[1] == pops[0]
					descr = fmt.Sprintf("math.Mod(%s, %s)", operandName(x.Call.Args[0], pops), operandName(x.Call.Args[1], pops))
				}
			}
		default:
			descr = val.String()
		}
		if !okv {
			probs = append(probs, fmt.Sprintf("pushes `%s` at %s; XPath requires left %s right with left = second-popped, right = first-popped, on every path (IEEE 754 already defines division by zero, NaN and signed zero)", descr, w.PosStr(ps.Pos()), op))
		}
	}
	return probs
}

func operandName(v ssa.Value, pops []ssa.Value) string {
	for i, p := range pops {
		if v == p {
			if len(pops) == 1 {
				return "operand"
			}
			return []string{"right", "left"}[i]
		}
	}
	return v.String()
}

func c01Bool(w *World, m *types.Func, op string) []string {
	fn := w.SSAFunc(m)
	popBool := w.SSAFunc(w.Method("xpath", "context", "popBool"))
	newBool := w.SSAFunc(w.Func("xpath", "NewBoolDatum"))
	evs, atEntry := popEvents(w, fn, map[*ssa.Function]bool{popBool: true})
	if len(evs) != 2 {
		return []string{fmt.Sprintf("pops %d booleans, expected 2", len(evs))}
	}
	if !atEntry || evs[0].val == nil || evs[1].val == nil {
		return []string{"operands are not popped unconditionally at entry"}
	}
	var results []*ssa.Call
	for _, b := range fn.Blocks {
		for _, in := range b.Instrs {
			if c, ok := in.(*ssa.Call); ok && c.Call.StaticCallee() == newBool {
				results = append(results, c)
			}
		}
	}
	if len(results) != 1 {
		return []string{"does not push exactly one NewBoolDatum"}
	}
	// the pushed value as a formula over the two popped booleans
	sym := NewSym(w)
	sym.Name(evs[0].val, "right")
	sym.Name(evs[1].val, "left")
	val := sym.Cond(results[0].Call.Args[0], nil)
	if blk := results[0].Block(); blk != fn.Blocks[0] {
		// `a && b` is control flow: the value is a phi whose edges carry the conditions
		if phi, ok := results[0].Call.Args[0].(*ssa.Phi); ok {
			val = pcZ
			for i, e := range phi.Edges {
				pred := phi.Block().Preds[i]
				val = pcOrF(val, pcAndF(pcAndF(sym.PathCond(fn.Blocks[0], pred, nil), sym.edgeCond(pred, phi.Block(), nil)), sym.Cond(e, nil)))
			}
		}
	}
	msg := pcCompare(val, func(a *pcAtom) string {
		if a.key == "left" || a.key == "right" {
			return a.key
		}
		return ""
	}, func(env map[string]bool) bool {
		if op == "&&" {
			return env["left"] && env["right"]
		}
		return env["left"] || env["right"]
	})
	if msg != "" {
		return []string{"result is not left " + op + " right: " + msg}
	}
	return nil
}

// c01Cmp checks the three comparison closures of Eq/Ne/Lt/Le/Gt/Ge.
func c01Cmp(w *World, m *types.Func, op string) []string {
	fd, p := w.FuncDecl(m)
	relational := op != "=" && op != "!="
	var sink *types.Func
	if relational {
		sink = w.Method("xpath", "context", "popCompareRelationalAndPush")
	} else {
		sink = w.Method("xpath", "context", "popCompareEqualityAndPush")
	}
	calls := allCallsTo(p, fd.Body, sink)
	if len(calls) != 1 || len(calls[0].Args) != 4 {
		return []string{"does not hand its comparators to " + sink.Name() + " exactly once"}
	}
	// operator string passed along must be the operator (used in messages only) — not checked.
	// resolve the three closures: arguments are idents bound to func literals
	lits := map[types.Object]*ast.FuncLit{}
	ast.Inspect(fd.Body, func(n ast.Node) bool {
		if as, ok := n.(*ast.AssignStmt); ok && len(as.Lhs) == 1 && len(as.Rhs) == 1 {
			if fl, ok := as.Rhs[0].(*ast.FuncLit); ok {
				lits[objOfIdent(p, as.Lhs[0])] = fl
			}
		}
		return true
	})
	get := func(i int) (*ast.FuncLit, types.Object) {
		arg := ast.Unparen(calls[0].Args[i])
		if fl, ok := arg.(*ast.FuncLit); ok {
			return fl, nil
		}
		o := objOfIdent(p, arg)
		if fl, ok := lits[o]; ok {
			return fl, o
		}
		// a named function of the package used as comparator: read like a closure that captures nothing
		if fn, ok := o.(*types.Func); ok && fn.Pkg() == p.Types {
			if nfd, _ := w.FuncDecl(fn); nfd != nil && nfd.Body != nil && nfd.Recv == nil {
				return &ast.FuncLit{Type: nfd.Type, Body: nfd.Body}, o
			}
		}
		return nil, o
	}
	boolFn, _ := get(0)
	litFn, _ := get(1)
	numFn, numObj := get(2)
	if boolFn == nil || litFn == nil || numFn == nil {
		return []string{"comparators are not local closures"}
	}
	var probs []string
	// number comparator: truth table
	tt := func(fl *ast.FuncLit, conv string, what string) {
		e := singleReturnExpr(fl)
		if e == nil {
			probs = append(probs, what+" comparator is not a single return expression")
			return
		}
		env := closureEnv(p, fl, conv)
		spec := ordSpec[op]
		for c := ordCase(0); c < nOrd; c++ {
			if conv != "Number" && c >= ordNaNL {
				continue // booleans and strings have no NaN
			}
			if conv != "Number" && (op != "=" && op != "!=") {
				continue
			}
			got, ok := evalOrd(p, e, env, c)
			if !ok {
				probs = append(probs, what+" comparator: expression outside the ordering subset: "+types.ExprString(e))
				return
			}
			if got != spec[c] {
				probs = append(probs, fmt.Sprintf("%s comparator yields %v when %s; XPath %s must yield %v (%s)", what, got, ordNames[c], op, spec[c], types.ExprString(e)))
			}
		}
	}
	tt(numFn, "Number", "number")
	if !relational {
		tt(boolFn, "Boolean", "boolean")
		tt(litFn, "Literal", "string")
	} else {
		// boolFn/litFn must convert both operands (in order) and delegate to numFn
		deleg := func(fl *ast.FuncLit, conv, ctor, what string) {
			e := singleReturnExpr(fl)
			ce, ok := ast.Unparen(e).(*ast.CallExpr)
			if e == nil || !ok || objOfIdent(p, ce.Fun) != numObj || len(ce.Args) != 2 {
				probs = append(probs, what+" comparator does not delegate to the number comparator")
				return
			}
			for i, a := range ce.Args {
				inner, ok := ast.Unparen(a).(*ast.CallExpr)
				if !ok || calleeOf(p, inner) == nil || calleeOf(p, inner).Name() != ctor || len(inner.Args) != 1 {
					probs = append(probs, what+" comparator: operand is not re-wrapped with "+ctor)
					return
				}
				if k, mname := datumConv(p, fl, inner.Args[0]); k != i || mname != conv {
					probs = append(probs, fmt.Sprintf("%s comparator passes operand %d converted with %s to position %d (must keep left/right order and use %s)", what, k+1, mname, i+1, conv))
				}
			}
		}
		deleg(boolFn, "Boolean", "NewBoolDatum", "boolean")
		deleg(litFn, "Literal", "NewLiteralDatum", "string")
	}
	return probs
}

func c01TypeSelection(w *World, r *Report) {
	c01Dispatch(w, r)
	// --- compareNodesetsAndPush: empty set ⇒ false, before any comparator; operand order
	c01NodesetGuards(w, r)
	newBool := w.Func("xpath", "NewBoolDatum")
	capn := w.Method("xpath", "context", "compareAndPushNodesets")
	cw := w.Method("xpath", "context", "compareWorker")
	afd, ap := w.FuncDecl(capn)
	okW := true
	nW := 0
	for _, ce := range allCallsTo(ap, afd.Body, cw) {
		nW++
		if objOfIdent(ap, ce.Args[0]) != paramObj(ap, afd, 0) || objOfIdent(ap, ce.Args[1]) != paramObj(ap, afd, 1) {
			okW = false
		}
	}
	r.Check(okW && nW == 3, "R01.2", "compareAndPushNodesets operand order", afd.Pos(), "compareWorker(ops1, ops2, _) ×3", "operand sets exchanged or a comparison kind missing")
	// compareWorker: existential — true is pushed in the middle of the scan exactly when the
	// comparator accepts the current pair (left element, right element); false once both lists are exhausted
	wfd, _ := w.FuncDecl(cw)
	exist, lastFalse := false, false
	if wf := w.SSAFunc(cw); wf != nil && len(wf.Params) == 4 {
		sym := NewSym(w)
		isNewBool := func(in ssa.Instruction) *ssa.Call {
			c, ok := in.(*ssa.Call)
			if !ok || c.Call.StaticCallee() == nil || c.Call.StaticCallee().Object() != types.Object(newBool) || len(c.Call.Args) != 1 {
				return nil
			}
			return c
		}
		// the scan: in sf, with the two lists and the comparator given; verdict(b) is
		// the constant truth value the exit through block b stands for
		scan := func(sf *ssa.Function, left, right, cmp ssa.Value, verdict func(b *ssa.BasicBlock) (bool, bool)) (bool, bool) {
			elemOf := func(v ssa.Value, list ssa.Value) bool {
				ld, ok := v.(*ssa.UnOp)
				if !ok {
					return false
				}
				ia, ok := ld.X.(*ssa.IndexAddr)
				return ok && ia.X == list && isRangeIndex(ia.Index)
			}
			hit := pcZ
			nHit, nMiss, bad := 0, 0, false
			for _, ex := range searchExits(sym, sf) {
				val, pushes := verdict(ex.block)
				switch {
				case ex.inLoop && pushes && val:
					nHit++
					hit = pcOrF(hit, ex.cond)
				case !ex.inLoop && pushes && !val:
					nMiss++
				default:
					bad = true
				}
			}
			ex := false
			if !bad && nHit > 0 {
				ex = pcCompare(hit, func(a *pcAtom) string {
					if a.op == token.LSS && a.x != nil && isRangeIndex(a.x) {
						return "iter"
					}
					if c, ok := a.v.(*ssa.Call); ok && c.Call.Value == cmp && len(c.Call.Args) == 2 &&
						elemOf(c.Call.Args[0], left) && elemOf(c.Call.Args[1], right) {
						return "match"
					}
					return ""
				}, func(env map[string]bool) bool { return env["iter"] && env["match"] }) == ""
			}
			return ex, !bad && nMiss > 0
		}
		// the verdict is computed by a helper handed the lists and the comparator, and pushed once
		var pushes []*ssa.Call
		for _, bl := range wf.Blocks {
			for _, in := range bl.Instrs {
				if c := isNewBool(in); c != nil {
					pushes = append(pushes, c)
				}
			}
		}
		delegated := false
		if len(pushes) == 1 && len(ssaLoops(wf)) == 0 {
			if hc, ok := pushes[0].Call.Args[0].(*ssa.Call); ok {
				if h := hc.Call.StaticCallee(); h != nil && h.Blocks != nil && strings.HasPrefix(pkgPathOf(h), modPath) {
					var left, right, cmp ssa.Value
					for i, a := range hc.Call.Args {
						if i >= len(h.Params) {
							break
						}
						switch a {
						case ssa.Value(wf.Params[1]):
							left = h.Params[i]
						case ssa.Value(wf.Params[2]):
							right = h.Params[i]
						case ssa.Value(wf.Params[3]):
							cmp = h.Params[i]
						}
					}
					if left != nil && right != nil && cmp != nil {
						delegated = true
						exist, lastFalse = scan(h, left, right, cmp, func(b *ssa.BasicBlock) (bool, bool) {
							ret, ok := b.Instrs[len(b.Instrs)-1].(*ssa.Return)
							if !ok || len(ret.Results) != 1 {
								return false, false
							}
							k, ok := unspill(ret.Results[0]).(*ssa.Const)
							if !ok || k.Value == nil || k.Value.Kind() != constant.Bool {
								return false, false
							}
							return constant.BoolVal(k.Value), true
						})
					}
				}
			}
		}
		if !delegated {
			exist, lastFalse = scan(wf, wf.Params[1], wf.Params[2], wf.Params[3], func(b *ssa.BasicBlock) (bool, bool) {
				for _, in := range b.Instrs {
					if c := isNewBool(in); c != nil {
						if k, ok := c.Call.Args[0].(*ssa.Const); ok && k.Value != nil {
							return k.Value.ExactString() == "true", true
						}
					}
				}
				return false, false
			})
		}
	}
	r.Check(exist && lastFalse, "R01.2", "compareWorker existential", wfd.Pos(), "some pair true ⇒ true; otherwise false", "node-set comparison is no longer 'true iff some pair compares true'")
}

func c01Conversions(w *World, r *Report) {
	c01ConversionsSSA(w, r)
	// round: floor(x), plus one when the fraction is at least one half (ties towards +∞).
	// floor(x + 0.5) is NOT accepted: x + 0.5 rounds before the floor (0.49999999999999994 → 1,
	// odd integers above 2^52 move to the next even one).
	{
		f := w.SSAFunc(w.Func("xpath", "round"))
		if f == nil {
			panic(undecided{"xpath.round"})
		}
		var floor *ssa.Call
		imprecise := false
		// the rounding itself: in round(), or in the helper of the package it shares with substring()
		for _, g := range bodiesDeep(f, 0) {
			if g.Pkg != f.Pkg || g == f {
				continue
			}
			for _, b := range g.Blocks {
				for _, in := range b.Instrs {
					if c, ok := in.(*ssa.Call); ok && c.Call.StaticCallee() != nil && c.Call.StaticCallee().String() == "math.Floor" {
						has := false
						for _, fb := range f.Blocks {
							for _, fin := range fb.Instrs {
								if fc, isC := fin.(*ssa.Call); isC && fc.Call.StaticCallee() != nil && fc.Call.StaticCallee().String() == "math.Floor" {
									has = true
								}
							}
						}
						if !has {
							f = g
						}
					}
				}
			}
		}
		for _, b := range f.Blocks {
			for _, in := range b.Instrs {
				c, ok := in.(*ssa.Call)
				if !ok || c.Call.StaticCallee() == nil || c.Call.StaticCallee().String() != "math.Floor" {
					continue
				}
				if _, isSum := c.Call.Args[0].(*ssa.BinOp); isSum {
					imprecise = true
				} else {
					floor = c
				}
			}
		}
		half, plusOne := false, false
		if floor != nil {
			x := floor.Call.Args[0]
			for _, b := range f.Blocks {
				for _, in := range b.Instrs {
					bo, ok := in.(*ssa.BinOp)
					if !ok {
						continue
					}
					isConst := func(v ssa.Value, want float64) bool {
						c, ok := v.(*ssa.Const)
						if !ok || c.Value == nil {
							return false
						}
						fv, _ := constant.Float64Val(constant.ToFloat(c.Value))
						return fv == want
					}
					if bo.Op == token.GEQ && isConst(bo.Y, 0.5) {
						if d, ok := bo.X.(*ssa.BinOp); ok && d.Op == token.SUB && d.X == x && d.Y == ssa.Value(floor) {
							half = true
						}
					}
					if bo.Op == token.ADD && bo.X == ssa.Value(floor) && isConst(bo.Y, 1) {
						plusOne = true
					}
				}
			}
		}
		r.Check(floor != nil && half && plusOne && !imprecise, "R01.3", "round", f.Pos(), "floor(x), +1 iff x − floor(x) ≥ 0.5", "round() is not computed as floor(x) plus one when the fraction is at least ½ (ties towards +∞, XPath §4.4): truncation away from zero gives round(-2.5) = -3, and floor(x + 0.5) gives round(0.49999999999999994) = 1")
	}
}

// evalBoolFunc evaluates a method body of the shapes `return cond` or
// `if cond { return b1 }; return b2` for each ordering case.
func evalBoolFunc(p *packages.Package, fd *ast.FuncDecl, env ordEnv, cases []ordCase) ([]bool, bool) {
	out := make([]bool, len(cases))
	for i, c := range cases {
		decided := false
		for _, s := range fd.Body.List {
			switch x := s.(type) {
			case *ast.ReturnStmt:
				v, ok := evalOrd(p, x.Results[0], env, c)
				if !ok {
					return out, false
				}
				out[i], decided = v, true
			case *ast.IfStmt:
				v, ok := evalOrd(p, x.Cond, env, c)
				if !ok || x.Else != nil {
					return out, false
				}
				if v {
					rets := returnsIn(x.Body)
					if len(rets) != 1 {
						return out, false
					}
					b, ok := evalOrd(p, rets[0].Results[0], env, c)
					if !ok {
						return out, false
					}
					out[i], decided = b, true
				}
			default:
				return out, false
			}
			if decided {
				break
			}
		}
		if !decided {
			return out, false
		}
	}
	return out, true
}

// XPath 1.0 §4 signatures ("?" marks an optional trailing argument)
var xpathSigs = map[string]struct {
	args []string
	ret  string
}{
	"boolean": {[]string{"object"}, "boolean"}, "ceiling": {[]string{"number"}, "number"},
	"concat": {[]string{"string", "string"}, "string"}, "contains": {[]string{"string", "string"}, "boolean"},
	"count": {[]string{"node-set"}, "number"}, "current": {nil, "node-set"}, "false": {nil, "boolean"},
	"floor": {[]string{"number"}, "number"}, "last": {nil, "number"}, "local-name": {[]string{"node-set?"}, "string"},
	"normalize-space": {[]string{"string?"}, "string"}, "not": {[]string{"boolean"}, "boolean"},
	"number": {[]string{"object?"}, "number"}, "round": {[]string{"number"}, "number"}, "position": {nil, "number"},
	"starts-with": {[]string{"string", "string"}, "boolean"}, "string": {[]string{"object?"}, "string"},
	"string-length": {[]string{"string?"}, "number"}, "substring": {[]string{"string", "number", "number?"}, "string"},
	"substring-after": {[]string{"string", "string"}, "string"}, "substring-before": {[]string{"string", "string"}, "string"},
	"sum": {[]string{"node-set"}, "number"}, "translate": {[]string{"string", "string", "string"}, "string"},
	"true": {nil, "boolean"},
	// RFC 7950 §10.2.1
	"re-match": {[]string{"string", "string"}, "boolean"},
}

var checkerKinds = map[string]string{
	"TypeIsObject": "object", "TypeIsNumber": "number", "TypeIsLiteral": "string", "TypeIsBool": "boolean", "TypeIsNodeset": "node-set",
}

// defining operation of a function: stdlib callee and argument order
var fnAnchor = map[string]struct {
	callee string
	args   []int // indices of args[] in call order; nil = not checked
}{
	"contains": {"strings.Contains", []int{0, 1}}, "starts-with": {"strings.HasPrefix", []int{0, 1}},
	"substring-after": {"strings.Index", []int{0, 1}}, "substring-before": {"strings.Index", []int{0, 1}},
	"floor": {"math.Floor", []int{0}}, "ceiling": {"math.Ceil", []int{0}},
}

func c01FunctionTable(w *World, r *Report) {
	v := w.Var("xpath", "xpathFunctionTable")
	init, p := w.VarInit(v)
	cl, ok := ast.Unparen(init).(*ast.CompositeLit)
	if !ok {
		panic(undecided{"xpathFunctionTable literal"})
	}
	newFnSym := w.Func("xpath", "NewFnSym")
	verify := w.Method("xpath", "context", "verifyArgNumAndTypes")
	kindsOf := func(pk *packages.Package, e ast.Expr) ([]string, bool) {
		c, ok := ast.Unparen(e).(*ast.CompositeLit)
		if !ok {
			return nil, false
		}
		var ks []string
		for _, el := range c.Elts {
			f := MethodValue(pk, el)
			if f == nil {
				return nil, false
			}
			k, ok := checkerKinds[nm(f)]
			if !ok {
				return nil, false
			}
			ks = append(ks, k)
		}
		return ks, true
	}
	seen := map[string]bool{}
	for _, el := range cl.Elts {
		kv := el.(*ast.KeyValueExpr)
		key, _ := ConstStr(p, kv.Key)
		c := "xpathFunctionTable[" + key + "]"
		seen[key] = true
		ce, ok := kv.Value.(*ast.CallExpr)
		if !ok || calleeOf(p, ce) != newFnSym || len(ce.Args) != 4 {
			r.Fail("R01.4", c, kv.Pos(), "entry is not NewFnSym(name, fn, args, ret)")
			continue
		}
		var probs []string
		if name, _ := ConstStr(p, ce.Args[0]); name != key {
			probs = append(probs, fmt.Sprintf("symbol name %q differs from the table key", name))
		}
		impl := MethodValue(p, ce.Args[1])
		args, okA := kindsOf(p, ce.Args[2])
		retF := MethodValue(p, ce.Args[3])
		ret := ""
		if retF != nil {
			ret = checkerKinds[nm(retF)]
		}
		sig, known := xpathSigs[key]
		if !okA || impl == nil {
			probs = append(probs, "argument checker list or implementation not resolvable")
		} else if known {
			// declared list must be the required args, optionally followed by the optional ones
			var req, all []string
			for _, a := range sig.args {
				all = append(all, strings.TrimSuffix(a, "?"))
				if !strings.HasSuffix(a, "?") {
					req = append(req, a)
				}
			}
			if strings.Join(args, ",") != strings.Join(all, ",") && strings.Join(args, ",") != strings.Join(req, ",") {
				probs = append(probs, fmt.Sprintf("declared arguments (%s) are not the XPath signature (%s)", strings.Join(args, ","), strings.Join(sig.args, ",")))
			}
			if ret != sig.ret {
				probs = append(probs, fmt.Sprintf("declared result %s, XPath says %s", ret, sig.ret))
			}
		}
		if impl != nil {
			ifd, ip := w.FuncDecl(impl)
			argsParam := paramObj(ip, ifd, 1)
			// verifyArgNumAndTypes agreement
			for _, vc := range allCallsTo(ip, ifd.Body, verify) {
				bk, okB := kindsOf(ip, vc.Args[2])
				if okB && okA && strings.Join(bk, ",") != strings.Join(args, ",") {
					probs = append(probs, fmt.Sprintf("body verifies (%s) but the table declares (%s)", strings.Join(bk, ","), strings.Join(args, ",")))
				}
			}
			// reads only declared arguments; record which local holds which argument
			argLocal := map[types.Object]int{}
			ast.Inspect(ifd.Body, func(n ast.Node) bool {
				if ix, ok := n.(*ast.IndexExpr); ok && objOfIdent(ip, ix.X) == argsParam {
					if i, ok := ConstInt(ip, ix.Index); ok {
						if okA && int(i) >= len(args) {
							probs = append(probs, fmt.Sprintf("reads args[%d] but only %d argument(s) are declared: index out of range at run time", i, len(args)))
						}
					}
				}
				if as, ok := n.(*ast.AssignStmt); ok && len(as.Lhs) == 1 && len(as.Rhs) == 1 {
					if ce2, ok := as.Rhs[0].(*ast.CallExpr); ok {
						if se, ok := ce2.Fun.(*ast.SelectorExpr); ok {
							if ix, ok := se.X.(*ast.IndexExpr); ok && objOfIdent(ip, ix.X) == argsParam {
								if i, ok := ConstInt(ip, ix.Index); ok {
									argLocal[objOfIdent(ip, as.Lhs[0])] = int(i)
								}
							}
						}
					}
				}
				return true
			})
			if an, ok := fnAnchor[key]; ok {
				found := false
				// strings.Cut(s, sep) gives the same split as strings.Index: the part wanted is the
				// only result of it that is kept (before = #0, after = #1)
				cutPart := map[string]int{"substring-before": 0, "substring-after": 1}
				ast.Inspect(ifd.Body, func(n ast.Node) bool {
					if as, ok := n.(*ast.AssignStmt); ok && len(as.Lhs) == 3 && len(as.Rhs) == 1 && an.callee == "strings.Index" {
						c2, ok := as.Rhs[0].(*ast.CallExpr)
						part, isCut := cutPart[key]
						if ok && isCut && calleeOf(ip, c2) != nil && calleeOf(ip, c2).FullName() == "strings.Cut" && len(c2.Args) == 2 {
							good := true
							for i, want := range an.args {
								if k, ok := argLocal[objOfIdent(ip, c2.Args[i])]; !ok || k != want {
									good = false
								}
							}
							for i := 0; i < 2; i++ {
								id, isId := as.Lhs[i].(*ast.Ident)
								if !isId || (id.Name == "_") != (i != part) {
									good = false
								}
							}
							if good {
								found = true
							}
						}
					}
					c2, ok := n.(*ast.CallExpr)
					if !ok || calleeOf(ip, c2) == nil || calleeOf(ip, c2).FullName() != an.callee {
						return true
					}
					good := len(c2.Args) >= len(an.args)
					for i, want := range an.args {
						if good {
							if k, ok := argLocal[objOfIdent(ip, c2.Args[i])]; !ok || k != want {
								good = false
							}
						}
					}
					if good {
						found = true
					}
					return true
				})
				if !found {
					found = c01AnchorThroughHelper(w, impl, an.callee, an.args)
				}
				if !found {
					probs = append(probs, fmt.Sprintf("result is not built from %s on the arguments in order", an.callee))
				}
			}
			switch key {
			case "concat":
				okc := false
				ast.Inspect(ifd.Body, func(n ast.Node) bool {
					if be, ok := n.(*ast.BinaryExpr); ok && be.Op == token.ADD {
						a, aok := argLocal[objOfIdent(ip, be.X)]
						b, bok := argLocal[objOfIdent(ip, be.Y)]
						if aok && bok && a == 0 && b == 1 {
							okc = true
						}
					}
					return true
				})
				if !okc {
					probs = append(probs, "concat is not arg0 + arg1")
				}
			case "not":
				okn := false
				ast.Inspect(ifd.Body, func(n ast.Node) bool {
					if u, ok := n.(*ast.UnaryExpr); ok && u.Op == token.NOT {
						if k, ok := argLocal[objOfIdent(ip, u.X)]; ok && k == 0 {
							okn = true
						}
					}
					return true
				})
				if !okn {
					probs = append(probs, "not() is not the negation of its argument")
				}
			case "true", "false":
				okb := false
				for _, c2 := range callsTo(ip, ifd.Body, w.Func("xpath", "NewBoolDatum")) {
					if v := ConstOf(ip, c2.Args[0]); v != nil && constant.BoolVal(v) == (key == "true") && len(callsTo(ip, ifd.Body, w.Func("xpath", "NewBoolDatum"))) == 1 {
						okb = true
					}
				}
				if !okb {
					probs = append(probs, key+"() does not return the constant "+key)
				}
			case "boolean", "number", "string":
				conv := map[string]string{"boolean": "Boolean", "number": "Number", "string": "Literal"}[key]
				okc := false
				ast.Inspect(ifd.Body, func(n ast.Node) bool {
					if c2, ok := n.(*ast.CallExpr); ok {
						if se, ok := c2.Fun.(*ast.SelectorExpr); ok && se.Sel.Name == conv {
							if ix, ok := se.X.(*ast.IndexExpr); ok && objOfIdent(ip, ix.X) == argsParam {
								okc = true
							}
						}
					}
					return true
				})
				if !okc {
					probs = append(probs, key+"() does not apply the "+conv+" conversion to its argument")
				}
			}
		}
		if len(probs) == 0 {
			r.OK("R01.4", c, kv.Pos(), fmt.Sprintf("(%s)→%s", strings.Join(args, ","), ret))
		} else {
			for _, pr := range probs {
				r.Fail("R01.4", c, kv.Pos(), pr)
			}
		}
	}
	for name := range xpathSigs {
		if !seen[name] {
			r.Fail("R01.4", "xpathFunctionTable["+name+"]", cl.Pos(), "core function missing from the table")
		}
	}
}

func c01ApiLanguage(w *World, r *Report) {
	// string → number
	{
		f := w.Func("xpath", "numberFromString")
		fd, p := w.FuncDecl(f)
		bad := false
		ast.Inspect(fd.Body, func(n ast.Node) bool {
			if ce, ok := n.(*ast.CallExpr); ok {
				if c := calleeOf(p, ce); c != nil && c.FullName() == "strconv.ParseFloat" {
					bad = true
					r.Fail("R01.5", "numberFromString calls strconv.ParseFloat", ce.Pos(), "ParseFloat accepts exponents, a leading '+', Inf/Infinity/NaN words, hexadecimal floats and '_' separators; XPath Number is '-'? Digits ('.' Digits?)? | '.' Digits, anything else is NaN (number('1e3') must be NaN, number('+5') must be NaN)")
				}
			}
			return true
		})
		if !bad {
			r.OK("R01.5", "numberFromString", fd.Pos(), "no over-accepting parser")
		}
	}
	// number → string
	{
		m := w.Method("xpath", "numDatum", "Literal")
		fd, p := w.FuncDecl(m)
		bad := false
		ast.Inspect(fd.Body, func(n ast.Node) bool {
			if ce, ok := n.(*ast.CallExpr); ok {
				if c := calleeOf(p, ce); c != nil && c.FullName() == "fmt.Sprintf" {
					if s, ok := ConstStr(p, ce.Args[0]); ok && (strings.Contains(s, "%v") || strings.Contains(s, "%g") || strings.Contains(s, "%e")) {
						bad = true
						r.Fail("R01.5", "numDatum.Literal formats with "+s, ce.Pos(), "%v/%g switch to exponent notation below 1e-4 and from 1e21; XPath string() never uses an exponent")
					}
				}
				if c := calleeOf(p, ce); c != nil && c.FullName() == "strconv.FormatFloat" {
					if v, ok := ConstInt(p, ce.Args[1]); ok && (v == 'e' || v == 'g' || v == 'E' || v == 'G') {
						bad = true
						r.Fail("R01.5", "numDatum.Literal formats with FormatFloat 'e'/'g'", ce.Pos(), "exponent notation is not an XPath number string")
					}
				}
			}
			return true
		})
		if !bad {
			r.OK("R01.5", "numDatum.Literal", fd.Pos(), "no exponent-producing formatter")
		}
	}
	// character-indexed functions must not use byte length / byte indices
	for _, name := range []string{"stringLength", "substring", "translate"} {
		f := w.Func("xpath", name)
		fd, p := w.FuncDecl(f)
		argsParam := paramObj(p, fd, 1)
		strLocals := map[types.Object]bool{}
		ast.Inspect(fd.Body, func(n ast.Node) bool {
			if as, ok := n.(*ast.AssignStmt); ok && len(as.Lhs) == 1 && len(as.Rhs) == 1 {
				if ce, ok := as.Rhs[0].(*ast.CallExpr); ok {
					if se, ok := ce.Fun.(*ast.SelectorExpr); ok && se.Sel.Name == "Literal" {
						if ix, ok := se.X.(*ast.IndexExpr); ok && objOfIdent(p, ix.X) == argsParam {
							strLocals[objOfIdent(p, as.Lhs[0])] = true
						}
					}
				}
			}
			return true
		})
		bad := 0
		ast.Inspect(fd.Body, func(n ast.Node) bool {
			switch x := n.(type) {
			case *ast.CallExpr:
				if id, ok := x.Fun.(*ast.Ident); ok && id.Name == "len" && len(x.Args) == 1 && strLocals[objOfIdent(p, x.Args[0])] {
					// len(s) == 0 tests are fine; only lengths that flow into results/indices matter
					if !isZeroTest(fd, x) {
						bad++
					}
				}
			case *ast.SliceExpr:
				if strLocals[objOfIdent(p, x.X)] {
					bad++
				}
			}
			return true
		})
		if bad > 0 {
			r.Fail("R01.5", name+" uses byte length/indices", fd.Pos(), fmt.Sprintf("%d byte-based length or slice operations on a string argument; XPath counts characters (string-length('é') = 1)", bad))
		} else {
			r.OK("R01.5", name, fd.Pos(), "no byte-based indexing")
		}
	}
}

// isZeroTest: the call is an operand of a comparison with the constant 0.
func isZeroTest(fd *ast.FuncDecl, ce *ast.CallExpr) bool {
	res := false
	ast.Inspect(fd.Body, func(n ast.Node) bool {
		be, ok := n.(*ast.BinaryExpr)
		if !ok {
			return true
		}
		if (ast.Unparen(be.X) == ast.Expr(ce) || ast.Unparen(be.Y) == ast.Expr(ce)) && (be.Op == token.EQL || be.Op == token.NEQ || be.Op == token.GTR) {
			for _, s := range []ast.Expr{be.X, be.Y} {
				if bl, ok := ast.Unparen(s).(*ast.BasicLit); ok && bl.Value == "0" {
					res = true
				}
			}
		}
		return true
	})
	return res
}

// resultAccessors is shared by C01 (R01.6) and C05 (R05.4).
func resultAccessors(w *World, r *Report, rule string) {
	runErr := w.Field("xpath", "Result", "runErr")
	value := w.Field("xpath", "Result", "value")
	for _, c := range []struct{ meth, conv string }{{"GetBoolResult", "Boolean"}, {"GetNumResult", "Number"}, {"GetLiteralResult", "Literal"}} {
		m := w.Method("xpath", "Result", c.meth)
		f := w.SSAFunc(m)
		if f == nil || len(ssaLoops(f)) > 0 {
			panic(undecided{"xpath.Result." + c.meth})
		}
		sym := NewSym(w)
		sym.ExpandReturns = true // the three accessors may share one helper they hand everything to
		loadOf := func(v ssa.Value, fld *types.Var) bool {
			ld, ok := v.(*ssa.UnOp)
			if !ok || ld.Op != token.MUL {
				return false
			}
			fa, ok := ld.X.(*ssa.FieldAddr)
			return ok && isFieldAddrOf(fa, fld)
		}
		classify := func(a *pcAtom) string {
			if a.op != token.EQL || a.x == nil {
				return ""
			}
			for _, pair := range [][2]ssa.Value{{a.x, a.y}, {a.y, a.x}} {
				if isNilConst(pair[1]) {
					if loadOf(pair[0], runErr) {
						return "errnil"
					}
					if loadOf(pair[0], value) {
						return "valnil"
					}
				}
			}
			return ""
		}
		// the decision table: (value result, error result) per exit; exits of one kind are joined
		r0, r1 := sym.retTable(f, 0), sym.retTable(f, 1)
		why := ""
		conds := map[string]*pcF{"run error": pcZ, "conversion": pcZ, "missing value": pcZ}
		seen := map[string]bool{}
		if len(r0) != len(r1) {
			why = "results not decided"
		}
		for i := range r1 {
			if why != "" {
				break
			}
			kind := ""
			switch {
			case loadOf(r1[i].val, runErr):
				kind = "run error"
			case isNilConst(r1[i].val):
				kind = "conversion"
				call, ok := r0[i].val.(*ssa.Call)
				if ok && !call.Call.IsInvoke() && len(call.Call.Args) == 1 {
					// value handed to a conversion function the accessor passed in: func(d) { return d.Conv() }
					var g *ssa.Function
					switch fv := sym.Resolve(call.Call.Value, r0[i].ctx).(type) {
					case *ssa.MakeClosure:
						g, _ = fv.Fn.(*ssa.Function)
					case *ssa.Function:
						g = fv
					}
					ok = false
					if g != nil && len(g.Blocks) == 1 && len(g.Params) == 1 && loadOf(call.Call.Args[0], value) {
						if ret, isRet := g.Blocks[0].Instrs[len(g.Blocks[0].Instrs)-1].(*ssa.Return); isRet && len(ret.Results) == 1 {
							if inner, isCall := ret.Results[0].(*ssa.Call); isCall && inner.Call.IsInvoke() && inner.Call.Method.Name() == c.conv && inner.Call.Value == ssa.Value(g.Params[0]) {
								ok = true
							}
						}
					}
					if !ok {
						why = "the successful exit does not return value." + c.conv + "()"
					}
				} else if !ok || !call.Call.IsInvoke() || call.Call.Method.Name() != c.conv || !loadOf(call.Call.Value, value) {
					why = "the successful exit does not return value." + c.conv + "()"
				}
			default:
				kind = "missing value"
			}
			seen[kind] = true
			conds[kind] = pcOrF(conds[kind], r1[i].cond)
		}
		wants := map[string]func(env map[string]bool) bool{
			"run error":     func(env map[string]bool) bool { return !env["errnil"] },
			"conversion":    func(env map[string]bool) bool { return env["errnil"] && !env["valnil"] },
			"missing value": func(env map[string]bool) bool { return env["errnil"] && env["valnil"] },
		}
		for _, kind := range []string{"run error", "conversion", "missing value"} {
			if why == "" && seen[kind] {
				if msg := pcCompare(conds[kind], classify, wants[kind]); msg != "" {
					why = "the " + kind + " exit is taken under the wrong condition: " + msg
				}
			}
		}
		if why == "" && !(seen["run error"] && seen["conversion"] && seen["missing value"]) {
			why = "one of the three exits is missing"
		}
		r.Check(why == "", rule, "Result."+c.meth, f.Pos(), "runErr first, then nil value, then value."+c.conv+"()", "accessor does not return the run error first / the missing-value error second / the "+c.conv+" conversion last: "+why)
	}
}

// c01Dispatch (R01.2): the type selection of '=' / '!=' and of the relational
// operators, read off the path conditions of the comparator calls.  The two
// operands are the two popDatum results (first popped = right operand).  For
// equality: the node-set routine is entered iff either operand is a node-set;
// else the boolean comparator iff either is a boolean; else the number
// comparator iff either is a number; else the string comparator iff either is
// a string — every comparator receiving (left, right).  Relational: node-set
// routine iff either operand is a node-set, the number comparator otherwise.
func c01Dispatch(w *World, r *Report) {
	popDatum := w.Method("xpath", "context", "popDatum")
	cns := w.Method("xpath", "context", "compareNodesetsAndPush")
	kindOfType := map[string]string{"nodesetDatum": "ns", "boolDatum": "b", "numDatum": "n", "litDatum": "l"}
	kindOfPred := map[string]string{"isNodeset": "ns", "isBool": "b", "isNum": "n", "isLiteral": "l"}
	for _, spec := range []struct {
		meth     string
		equality bool
	}{{"popCompareEqualityAndPush", true}, {"popCompareRelationalAndPush", false}} {
		f := w.SSAFunc(w.Method("xpath", "context", spec.meth))
		if f == nil || len(f.Params) != 5 || len(ssaLoops(f)) > 0 {
			r.Fail("R01.2", spec.meth+" shape", token.NoPos, "expected (bool, string, number comparators, operator) and no loop")
			continue
		}
		// the pops, in execution order
		var pops []*ssa.Call
		for _, b := range f.DomPreorder() {
			for _, in := range b.Instrs {
				if c, ok := in.(*ssa.Call); ok && c.Call.StaticCallee() != nil && c.Call.StaticCallee().Object() == types.Object(popDatum) {
					pops = append(pops, c)
				}
			}
		}
		if len(pops) != 2 {
			r.Fail("R01.2", spec.meth+" shape", f.Pos(), "expected two pops")
			continue
		}
		right, left := ssa.Value(pops[0]), ssa.Value(pops[1])
		sym := NewSym(w)
		lk, rk := sym.Key(left, nil), sym.Key(right, nil)
		classify := func(a *pcAtom) string {
			// is<Kind>(operand), read through or not
			for i, k := range []string{lk, rk} {
				for tn, kind := range kindOfType {
					if a.key == k+".(xpath."+tn+")#1" {
						return fmt.Sprintf("%s%d", kind, i+1)
					}
				}
			}
			if c, ok := a.v.(*ssa.Call); ok && c.Call.StaticCallee() != nil && len(c.Call.Args) == 1 {
				if kind, ok := kindOfPred[nm(c.Call.StaticCallee())]; ok {
					if c.Call.Args[0] == left {
						return kind + "1"
					}
					if c.Call.Args[0] == right {
						return kind + "2"
					}
				}
			}
			return ""
		}
		either := func(env map[string]bool, k string) bool { return env[k+"1"] || env[k+"2"] }
		wantOf := map[string]func(env map[string]bool) bool{
			"nodeset": func(env map[string]bool) bool { return either(env, "ns") },
			"bool":    func(env map[string]bool) bool { return !either(env, "ns") && either(env, "b") },
			"num": func(env map[string]bool) bool {
				if spec.equality {
					return !either(env, "ns") && !either(env, "b") && either(env, "n")
				}
				return !either(env, "ns")
			},
			"lit": func(env map[string]bool) bool {
				return !either(env, "ns") && !either(env, "b") && !either(env, "n") && either(env, "l")
			},
		}
		seen := map[string]bool{}
		condOf := map[string]*pcF{}
		order, args, deleg := "", "", ""
		for _, b := range f.Blocks {
			for _, in := range b.Instrs {
				c, ok := in.(*ssa.Call)
				if !ok {
					continue
				}
				which := ""
				var a0, a1 ssa.Value
				// one call through a variable that was set to one of the comparators: one selection per way in
				if phi, isPhi := c.Call.Value.(*ssa.Phi); isPhi && len(c.Call.Args) == 2 {
					all := true
					for i, e := range phi.Edges {
						kind := ""
						switch e {
						case ssa.Value(f.Params[1]):
							kind = "bool"
						case ssa.Value(f.Params[2]):
							kind = "lit"
						case ssa.Value(f.Params[3]):
							kind = "num"
						}
						if kind == "" {
							all = false
							continue
						}
						pred := phi.Block().Preds[i]
						cond := pcAndF(pcAndF(sym.PathCond(f.Blocks[0], pred, nil), sym.edgeCond(pred, phi.Block(), nil)), sym.PathCond(phi.Block(), b, nil))
						seen[kind] = true
						if condOf[kind] == nil {
							condOf[kind] = pcZ
						}
						condOf[kind] = pcOrF(condOf[kind], cond)
					}
					if all {
						if c.Call.Args[0] != left || c.Call.Args[1] != right {
							args = "the comparison receives its operands in the wrong order"
						}
						continue
					}
				}
				switch {
				case c.Call.StaticCallee() != nil && c.Call.StaticCallee().Object() == types.Object(cns):
					which = "nodeset"
					// matched by parameter type: the operands are the Datum arguments in order; the
					// comparators are the caller's own, in the caller's order; the operator text, where
					// it is passed, is the caller's
					callee := c.Call.StaticCallee()
					var datums, fns, ownFns []ssa.Value
					isFn := func(t types.Type) bool { _, ok := t.Underlying().(*types.Signature); return ok }
					for _, fp := range f.Params[1:] {
						if isFn(fp.Type()) {
							ownFns = append(ownFns, fp)
						}
					}
					for i, a := range c.Call.Args {
						if i >= len(callee.Params) || (i == 0 && callee.Signature.Recv() != nil) {
							continue
						}
						switch pt := callee.Params[i].Type(); {
						case types.Identical(pt, left.Type()):
							datums = append(datums, a)
						case isFn(pt):
							fns = append(fns, a)
						default:
							if _, own := a.(*ssa.Parameter); !own {
								deleg = "the node-set routine gets an operator text other than the caller's"
							}
						}
					}
					if len(fns) != len(ownFns) {
						deleg = "the node-set routine does not get the caller's comparators"
					} else {
						for i := range fns {
							if fns[i] != ownFns[i] {
								deleg = "the node-set routine gets the comparators in another order"
							}
						}
					}
					if len(datums) == 2 {
						a0, a1 = datums[0], datums[1]
					}
				case c.Call.Value == ssa.Value(f.Params[1]):
					which = "bool"
				case c.Call.Value == ssa.Value(f.Params[2]):
					which = "lit"
				case c.Call.Value == ssa.Value(f.Params[3]):
					which = "num"
				default:
					continue
				}
				if which != "nodeset" && len(c.Call.Args) == 2 {
					a0, a1 = c.Call.Args[0], c.Call.Args[1]
				}
				seen[which] = true
				if a0 != left || a1 != right {
					args = "the " + which + " comparison receives its operands in the wrong order"
				}
				// several calls of one kind (a test written in two halves) are joined
				if condOf[which] == nil {
					condOf[which] = pcZ
				}
				condOf[which] = pcOrF(condOf[which], sym.PathCond(f.Blocks[0], b, nil))
			}
		}
		for _, which := range []string{"nodeset", "bool", "num", "lit"} {
			if condOf[which] == nil {
				continue
			}
			if msg := pcCompare(condOf[which], classify, wantOf[which]); msg != "" && order == "" {
				order = "the " + which + " comparison is selected under the wrong condition: " + msg
			}
		}
		wantKinds := []string{"nodeset", "num"}
		if spec.equality {
			wantKinds = []string{"nodeset", "bool", "num", "lit"}
		}
		for _, k := range wantKinds {
			if !seen[k] && order == "" {
				order = "no " + k + " comparison"
			}
		}
		if !spec.equality && (seen["bool"] || seen["lit"]) {
			order = "a relational operator compares as boolean or string"
		}
		if spec.equality {
			r.Check(order == "", "R01.2", spec.meth+" case order", f.Pos(), "node-set, then boolean, then number, then string", "type selection differs from XPath §3.4 (node-set first, then boolean compared as booleans, then number, then string): "+order)
			r.Check(args == "", "R01.2", spec.meth+" operand order", f.Pos(), "comparators get (left,right) = (second-popped, first-popped)", "a comparator receives its operands in the wrong order: "+args)
			r.Check(deleg == "" && seen["nodeset"], "R01.2", spec.meth+" node-set delegation", f.Pos(), "same comparators, (left,right)", "the node-set arm permutes comparators or operands: "+deleg)
		} else {
			r.Check(order == "" && args == "" && deleg == "", "R01.2", spec.meth+" default arm", f.Pos(), "numFn(left, right)", "non-node-set operands of a relational operator are not compared as numbers in (left,right) order: "+order+args+deleg)
		}
	}
}

// c01AnchorThroughHelper: the built-in impl hands its argument list to a helper
// of the package that applies the library function callee — named there, or
// handed over as a function value — to the accessor results of args[want…] in
// order.
func c01AnchorThroughHelper(w *World, impl *types.Func, callee string, want []int) bool {
	f := w.SSAFunc(impl)
	if f == nil || len(f.Params) < 2 {
		return false
	}
	argsParam := f.Params[len(f.Params)-1]
	for _, b := range f.Blocks {
		for _, in := range b.Instrs {
			c, ok := in.(*ssa.Call)
			if !ok {
				continue
			}
			h := c.Call.StaticCallee()
			if h == nil || h.Pkg != f.Pkg || h.Blocks == nil || h == f {
				continue
			}
			// which parameter of h is the argument list, which (if any) the library function
			var hArgs, hFn *ssa.Parameter
			for i, a := range c.Call.Args {
				if i >= len(h.Params) {
					break
				}
				if a == ssa.Value(argsParam) {
					hArgs = h.Params[i]
				}
				for _, fv := range funcValues(a, 0) {
					if fv.String() == callee {
						hFn = h.Params[i]
					}
				}
			}
			if hArgs == nil {
				continue
			}
			for _, hb := range h.Blocks {
				for _, hin := range hb.Instrs {
					hc, ok := hin.(*ssa.Call)
					if !ok {
						continue
					}
					isCallee := (hc.Call.StaticCallee() != nil && hc.Call.StaticCallee().String() == callee) || (hFn != nil && hc.Call.Value == ssa.Value(hFn))
					if !isCallee || len(hc.Call.Args) < len(want) {
						continue
					}
					good := true
					for i, k := range want {
						// accessor(args[k])
						ac, ok := hc.Call.Args[i].(*ssa.Call)
						if !ok || !ac.Call.IsInvoke() {
							good = false
							break
						}
						ld, ok := ac.Call.Value.(*ssa.UnOp)
						if !ok {
							good = false
							break
						}
						ia, ok := ld.X.(*ssa.IndexAddr)
						if !ok || ia.X != ssa.Value(hArgs) {
							good = false
							break
						}
						if idx, ok := intConstOf(ia.Index); !ok || int(idx) != k {
							good = false
						}
					}
					if good {
						return true
					}
				}
			}
		}
	}
	return false
}

package main

import (
	"fmt"
	"go/ast"
	"go/constant"
	"go/token"
	"go/types"
	"math"
	"sort"
	"strings"

	"golang.org/x/tools/go/ssa"
)

func init() { register("C16", checkC16) }

func checkC16(w *World, r *Report) {
	r.NotDecided = []string{
		"pattern semantics (XSD regular expressions vs Go RE2)",
		"decimal64 values between representable doubles (see the recorded finding R16.3)",
		"which identities and enums a module set declares",
	}
	p := w.Pkg("schema")

	r.Rule("R16.1", "integer value spaces: the signed and unsigned bound tables hold the exact two's-complement bounds per width; values are parsed base 10 with the type's own bit width", 10)
	r.guard("R16.1", func() {
		for _, tb := range []struct {
			name   string
			signed bool
		}{{"inttab", true}, {"uinttab", false}} {
			v := w.Var("schema", tb.name)
			init, ip := w.VarInit(v)
			lv := evalLit(ip, init)
			seen := map[int64]bool{}
			for _, row := range lv.KVs {
				bits, _ := constant.Int64Val(row.Key)
				seen[bits] = true
				vals := row.Val.Elems
				c := fmt.Sprintf("%s[%d]", tb.name, bits)
				if len(vals) != 2 || vals[0].Const == nil || vals[1].Const == nil {
					r.Fail("R16.1", c, row.Pos.Pos(), "row is not {min, max}")
					continue
				}
				var lo, hi constant.Value
				one := constant.MakeInt64(1)
				if tb.signed {
					hi = constant.BinaryOp(constant.Shift(one, token.SHL, uint(bits-1)), token.SUB, one)
					lo = constant.UnaryOp(token.SUB, constant.Shift(one, token.SHL, uint(bits-1)), 0)
				} else {
					lo = constant.MakeInt64(0)
					hi = constant.BinaryOp(constant.Shift(one, token.SHL, uint(bits)), token.SUB, one)
				}
				ok := constant.Compare(vals[0].Const, token.EQL, lo) && constant.Compare(vals[1].Const, token.EQL, hi)
				r.Check(ok, "R16.1", c, row.Pos.Pos(), vals[0].Const.String()+".."+vals[1].Const.String(), fmt.Sprintf("bounds %s..%s, the %d-bit value space is %s..%s", vals[0].Const, vals[1].Const, bits, lo, hi))
			}
			for _, b := range []int64{8, 16, 32, 64} {
				if !seen[b] {
					r.Fail("R16.1", fmt.Sprintf("%s[%d]", tb.name, b), init.Pos(), "width missing")
				}
			}
		}
		for _, c := range []struct{ typ, fn string }{{"integer", "strconv.ParseInt"}, {"uinteger", "strconv.ParseUint"}} {
			m := w.Method("schema", c.typ, "Validate")
			fd, _ := w.FuncDecl(m)
			ok := false
			ast.Inspect(fd.Body, func(x ast.Node) bool {
				if ce, isC := x.(*ast.CallExpr); isC {
					if f := calleeOf(p, ce); f != nil && f.FullName() == c.fn {
						base, isB := ConstInt(p, ce.Args[1])
						// bit size argument: int(i.t)
						width := false
						ast.Inspect(ce.Args[2], func(y ast.Node) bool {
							if f := fieldOfSel(p, asExpr(y)); f != nil && nm(f) == "t" {
								width = true
							}
							return true
						})
						ok = isB && base == 10 && width && objOfIdent(p, ce.Args[0]) == paramObj(p, fd, 2)
					}
				}
				return true
			})
			r.Check(ok, "R16.1", c.typ+".Validate parses exactly", fd.Pos(), c.fn+"(s, 10, width of the type)", "the value is not parsed base 10 with the type's own width: out-of-width values or other bases are accepted")
		}
	})

	r.Rule("R16.2", "string length is counted in characters: the argument of the length check is not the byte length of the value", 1)
	r.guard("R16.2", func() {
		m := w.Method("schema", "ystring", "Validate")
		fd, _ := w.FuncDecl(m)
		sParam := paramObj(p, fd, 2)
		ok, bytesLen := false, false
		ast.Inspect(fd.Body, func(x ast.Node) bool {
			ce, isC := x.(*ast.CallExpr)
			if !isC {
				return true
			}
			se, isS := ce.Fun.(*ast.SelectorExpr)
			if !isS || se.Sel.Name != "Validate" || len(ce.Args) != 1 {
				return true
			}
			if t := p.TypesInfo.TypeOf(se.X); t == nil || !strings.HasSuffix(t.String(), "schema.Length") {
				return true
			}
			ast.Inspect(ce.Args[0], func(y ast.Node) bool {
				if c2, ok2 := y.(*ast.CallExpr); ok2 {
					if id, isI := c2.Fun.(*ast.Ident); isI && id.Name == "len" && len(c2.Args) == 1 && objOfIdent(p, c2.Args[0]) == sParam {
						bytesLen = true
					}
					if f := calleeOf(p, c2); f != nil && f.FullName() == "unicode/utf8.RuneCountInString" && objOfIdent(p, c2.Args[0]) == sParam {
						ok = true
					}
					if id, isI := c2.Fun.(*ast.Ident); isI && id.Name == "len" && len(c2.Args) == 1 {
						if conv, isConv := c2.Args[0].(*ast.CallExpr); isConv && len(conv.Args) == 1 && objOfIdent(p, conv.Args[0]) == sParam {
							if tv, okT := p.TypesInfo.Types[conv.Fun]; okT && tv.IsType() && tv.Type.String() == "[]rune" {
								ok = true
							}
						}
					}
				}
				return true
			})
			return true
		})
		r.Check(ok && !bytesLen, "R16.2", "ystring.Validate length argument", fd.Pos(), "character count of the value", "the length restriction is applied to len(s), the number of UTF-8 bytes: a single non-ASCII character fails length 1")
	})

	r.Rule("R16.3", "decimal64 ranges are compared exactly: range boundaries and the compared value are not float64", 1)
	r.guard("R16.3", func() {
		f := w.Field("schema", "Drb", "Start")
		isFloat := types.Identical(f.Type().Underlying(), types.Typ[types.Float64])
		m := w.Method("schema", "decimal64", "Validate")
		fd, _ := w.FuncDecl(m)
		parsesFloat := false
		ast.Inspect(fd.Body, func(x ast.Node) bool {
			if ce, ok := x.(*ast.CallExpr); ok {
				if c := calleeOf(p, ce); c != nil && c.FullName() == "strconv.ParseFloat" {
					parsesFloat = true
				}
			}
			return true
		})
		r.Check(!isFloat && !parsesFloat, "R16.3", "decimal64 range representation", fd.Pos(), "exact (scaled integer) comparison", "decimal64 range boundaries (Drb) and the value under test are float64: 18-19 digit values next to a boundary round to the same double, so a value one unit outside a range is accepted")
	})

	r.Rule("R16.4", "patterns are implicitly anchored: the compiled expression is ^( pattern )$ on every path", 2)
	r.guard("R16.4", func() { r7PatternAnchored(w, r, "R16.4") })

	r.Rule("R16.9", "a union accepts iff some member accepts — so every member type written in the union reaches it: in getTypes each BuildType result of the loop over the type statements is appended on every path (no member is dropped, e.g. for sharing a type name with an earlier one)", 1)
	r.guard("R16.9", func() {
		f := c16UnionMembersFunc(w)
		found, ok, why := everyIterationAppends(f, func(c *ssa.Call) bool {
			return c.Call.StaticCallee() != nil && nm(c.Call.StaticCallee()) == "BuildType"
		})
		if !found {
			panic(undecided{"getTypes: loop that builds the member types"})
		}
		r.Check(ok, "R16.9", "getTypes keeps every union member", f.Pos(), "append(types, BuildType(member)) dominates the loop's back edge", "a member type can be left out of the union ("+why+"): values only that member accepts are rejected")
	})

	r.Rule("R16.10", "validation is read-only: no Validate method of a schema type or restriction writes through its receiver (types are shared by every leaf that uses them and by every value validated; a cached verdict or error object couples unrelated validations)", 10)
	r.guard("R16.10", func() {
		eff := NewEffects(w)
		n := 0
		for _, f := range allFuncs(w.SSAPkg("schema")) {
			if nm(f) != "Validate" || f.Signature.Recv() == nil || f.Parent() != nil || len(f.Params) == 0 {
				continue
			}
			if !strings.HasSuffix(w.Fset.Position(f.Pos()).Filename, "/types.go") {
				continue
			}
			if _, isPtr := f.Params[0].Type().(*types.Pointer); !isPtr {
				continue
			}
			n++
			// direct stores through the receiver
			bad := ""
			for _, b := range f.Blocks {
				for _, in := range b.Instrs {
					switch x := in.(type) {
					case *ssa.Store:
						if eff.rootsOf(x.Addr).params[0] && !isLocalCell(x.Addr) {
							bad = "store at " + w.PosStr(x.Pos())
						}
					case *ssa.MapUpdate:
						if eff.rootsOf(x.Map).params[0] {
							bad = "map update at " + w.PosStr(x.Pos())
						}
					}
				}
			}
			recv := strings.TrimPrefix(types.TypeString(f.Signature.Recv().Type(), func(*types.Package) string { return "" }), "*")
			r.Check(bad == "", "R16.10", recv+".Validate is read-only", f.Pos(), "no store through the receiver", recv+".Validate writes its receiver ("+bad+"): state left by one validation changes what a later one returns (e.g. a cached error object whose path is overwritten by the next value)")
		}
		if n == 0 {
			panic(undecided{"no Validate methods found in schema/types.go"})
		}
	})

	r.Rule("R16.5", "membership shapes: boolean accepts exactly true|false; empty rejects any non-empty value; enumeration and identityref accept iff some declared name equals the value; union accepts iff some member accepts; a range/length part accepts iff start ≤ v ≤ end", 9)
	r.guard("R16.5", func() {
		bm := w.Method("schema", "boolean", "Validate")
		bfd, _ := w.FuncDecl(bm)
		bf := w.SSAFunc(bm)
		acc := acceptedStrings(w, bf, func(k string) bool { return len(bf.Params) > 0 && k == NewSym(w).Key(bf.Params[len(bf.Params)-1], nil) })
		sort.Strings(acc)
		r.Check(strings.Join(acc, ",") == "false,true", "R16.5", "boolean.Validate", bfd.Pos(), "true|false", "boolean accepts {"+strings.Join(acc, ",")+"}")
		accept, _, epos := emptyValidateTable(w)
		r.Check(accept == "", "R16.5", "empty.Validate", epos, "s != \"\" ⇒ error; else nil", "the empty type accepts a value: "+accept)
		for _, c := range []struct{ typ, field string }{{"enumeration", "enums"}, {"identityref", "identities"}} {
			m := w.Method("schema", c.typ, "Validate")
			fd, _ := w.FuncDecl(m)
			okM := false
			if f := w.SSAFunc(m); f != nil && len(f.Params) == 4 {
				sym := NewSym(w)
				sVal := ssa.Value(f.Params[3])
				// accepted in the middle of the scan exactly when the element's Val equals the value;
				// rejected (non-nil) when the list is exhausted
				hit := pcZ
				nHit, nMiss, bad := 0, 0, false
				for _, ex := range searchExits(sym, f) {
					if len(ex.ret.Results) != 1 {
						continue
					}
					isNil := isNilConst(ex.ret.Results[0])
					switch {
					case ex.inLoop && isNil:
						nHit++
						hit = pcOrF(hit, ex.cond)
					case !ex.inLoop && !isNil:
						nMiss++
					default:
						bad = true
					}
				}
				if !bad && nHit > 0 && nMiss > 0 {
					okM = pcCompare(hit, func(a *pcAtom) string {
						if pcIsIter(a) {
							return "iter"
						}
						if a.op == token.EQL && a.x != nil {
							for _, pair := range [][2]ssa.Value{{a.x, a.y}, {a.y, a.x}} {
								if outerValue(pair[1]) == sVal && loadedFieldName(pair[0]) == "Val" {
									return "match"
								}
							}
						}
						return ""
					}, func(env map[string]bool) bool { return env["iter"] && env["match"] }) == ""
				}
				// the list scanned is the type's own
				scansOwn := nHit > 0
				for _, ex := range searchExits(sym, f) {
					if ex.inLoop && (ex.list == nil || loadedFieldName(ex.list) != c.field) {
						scansOwn = false
					}
				}
				okM = okM && scansOwn
			}
			r.Check(okM, "R16.5", c.typ+".Validate", fd.Pos(), "nil iff some declared .Val == value", c.typ+" no longer accepts exactly the declared (qualified) names")
		}
		um := w.Method("schema", "union", "Validate")
		ufd, _ := w.FuncDecl(um)
		okU := false
		if uf := w.SSAFunc(um); uf != nil && len(uf.Params) == 4 {
			val := uf.Params[3]
			// a member's Validate is handed the string union.Validate was given — directly, or inside a function
			// literal that captures it
			isVal := func(v ssa.Value, in *ssa.Function) bool {
				if v == ssa.Value(val) {
					return true
				}
				ld, ok := v.(*ssa.UnOp)
				if !ok {
					return false
				}
				switch c := ld.X.(type) {
				case *ssa.Alloc:
					return spillCell(val) == c
				case *ssa.FreeVar:
					for _, b := range uf.Blocks {
						for _, i2 := range b.Instrs {
							if mc, ok := i2.(*ssa.MakeClosure); ok && mc.Fn == ssa.Value(in) {
								for k, fv := range in.FreeVars {
									if fv == c && k < len(mc.Bindings) {
										if al, ok := mc.Bindings[k].(*ssa.Alloc); ok && spillCell(val) == al {
											return true
										}
									}
								}
							}
						}
					}
				}
				return false
			}
			for _, g := range append([]*ssa.Function{uf}, uf.AnonFuncs...) {
				for _, b := range g.Blocks {
					for _, in := range b.Instrs {
						if c, ok := in.(*ssa.Call); ok && c.Call.IsInvoke() && nm(c.Call.Method) == "Validate" && len(c.Call.Args) == 3 && isVal(c.Call.Args[2], g) {
							okU = true
						}
					}
				}
			}
		}
		r.Check(okU, "R16.5", "union.Validate", ufd.Pos(), "accepts iff some member accepts the same string", "union does not try each member type on the value")
		for _, typ := range []string{"Rb", "Urb", "Drb", "Lb"} {
			m := w.Method("schema", typ, "Validate")
			fd, _ := w.FuncDecl(m)
			okR := false
			if f := w.SSAFunc(m); f != nil && len(f.Params) == 2 && len(ssaLoops(f)) == 0 {
				sym := NewSym(w)
				v := ssa.Value(f.Params[1])
				accept := pcZ
				for _, row := range sym.retTable(f, 0) {
					if isNilConst(row.val) {
						accept = pcOrF(accept, row.cond)
					}
				}
				okR = pcCompare(accept, func(a *pcAtom) string {
					if a.op != token.LSS || a.x == nil {
						return ""
					}
					if a.x == v && loadedFieldName(a.y) == "Start" {
						return "below"
					}
					if a.y == v && loadedFieldName(a.x) == "End" {
						return "above"
					}
					return ""
				}, func(env map[string]bool) bool { return !env["below"] && !env["above"] }) == ""
			}
			r.Check(okR, "R16.5", typ+".Validate", fd.Pos(), "v < Start || v > End ⇒ error", typ+" boundary test is not 'start ≤ v ≤ end' (a bound is off by one or inverted)")
		}
	})

	r.Rule("R16.12", "a value lies in a multi-part range iff some part holds it: integer, uinteger and decimal64 Validate ask every part of the effective range in turn and stop only at one that accepts", 3)
	r.guard("R16.12", func() { partsScan(w, r, "R16.12") })

	r.Rule("R16.13", "the value space of an identityref is the list the compiler hands over: NewIdentityref stores its identity list as given (nil replaced by an empty list) — no identity is filtered out on the way (two modules may both derive an identity with the same local name)", 1)
	r.guard("R16.13", func() {
		r6ListStoredAsGiven(w, r, "R16.13", "NewIdentityref", "Identity", "identityref", "identities", "identities: ids", "a declared, derived identity can be missing from the type and is then rejected as a value")
	})

	r.Rule("R16.14", "the path in a rejection is written by the encoder that its readers decode: every error constructor of schema/errors.go sets Path to pathutil.Pathstr(…) of its path argument (pathutil.Makepath is its inverse; another escaping — '+' left as is — names a different value)", 8)
	r.guard("R16.14", func() {
		sp := w.SSAPkg("schema")
		n := 0
		for _, f := range allFuncs(sp) {
			if !strings.HasSuffix(w.Fset.Position(f.Pos()).Filename, "/errors.go") {
				continue
			}
			for _, b := range f.Blocks {
				for _, in := range b.Instrs {
					st, ok := in.(*ssa.Store)
					if !ok {
						continue
					}
					fa, ok := st.Addr.(*ssa.FieldAddr)
					if !ok {
						continue
					}
					if fv := fieldAddrVar(fa); fv == nil || fv.Name() != "Path" {
						continue
					}
					n++
					call, isCall := st.Val.(*ssa.Call)
					good := isCall && call.Call.StaticCallee() != nil && strings.HasSuffix(call.Call.StaticCallee().String(), "pathutil.Pathstr")
					r.Check(good, "R16.14", fmt.Sprintf("%s: Path #%d", funcKey(f), n), st.Pos(), "Path = pathutil.Pathstr(path)", "the error's Path is `"+st.Val.String()+"`, not the result of pathutil.Pathstr: a value with a '+' (a signed number one past a bound) is reported under a path that decodes to another value")
				}
			}
		}
		if n == 0 {
			panic(undecided{"schema/errors.go: no store into Path"})
		}
	})

	r.Rule("R16.6", "a rejection carries the path and the custom message/app-tag: every error constructor called by a Validate method receives the path parameter, and the numeric types prefer the configured message", 6)
	r.guard("R16.6", func() {
		for _, typ := range []string{"boolean", "decimal64", "enumeration", "integer", "uinteger", "union", "identityref"} {
			m := w.Method("schema", typ, "Validate")
			fd, _ := w.FuncDecl(m)
			path := paramObj(p, fd, 1)
			n, good := 0, true
			ast.Inspect(fd.Body, func(x ast.Node) bool {
				if ce, ok := x.(*ast.CallExpr); ok {
					if c := calleeOf(p, ce); c != nil && strings.HasPrefix(nm(c), "newInvalidValueError") {
						n++
						if len(ce.Args) == 0 || objOfIdent(p, ce.Args[0]) != path {
							good = false
						}
					}
				}
				return true
			})
			r.Check(n > 0 && good, "R16.6", typ+".Validate errors carry the path", fd.Pos(), fmt.Sprintf("%d constructors, all given path", n), "a rejection is built without the path of the value")
		}
	})

	r.Rule("R16.11", "a rejection carries the app-tag defined on the restriction whenever one is defined: in Pattern.Validate the choice between the custom app-tag and the default one is a top-level test of p.AppTag alone (independent of whether an error-message was given)", 1)
	r.guard("R16.11", func() {
		fd, _ := w.FuncDecl(w.Method("schema", "Pattern", "Validate"))
		good := false
		if f := w.SSAFunc(w.Method("schema", "Pattern", "Validate")); f != nil && len(ssaLoops(f)) == 0 {
			sym := NewSym(w)
			classify := func(a *pcAtom) string {
				if c, ok := a.v.(*ssa.Call); ok && strings.HasSuffix(pcCalleeName(c.Common()), "MatchString") {
					return "matches"
				}
				if bo, ok := a.v.(*ssa.BinOp); ok && a.subj != "" && a.set.equal(isetOf(0)) {
					for _, side := range []ssa.Value{bo.X, bo.Y} {
						if arg, ok := isLenCall(side); ok {
							side = arg
						}
						if loadedFieldName(side) == "AppTag" {
							return "notag"
						}
					}
				}
				return ""
			}
			// the store of the pattern's own tag into the error: exactly when the value does not match and a tag is defined
			for _, b := range f.Blocks {
				for _, in := range b.Instrs {
					st, ok := in.(*ssa.Store)
					if !ok {
						continue
					}
					fa, ok := st.Addr.(*ssa.FieldAddr)
					if !ok {
						continue
					}
					stt := fa.X.Type().Underlying().(*types.Pointer).Elem().Underlying().(*types.Struct)
					if stt.Field(fa.Field).Name() != "AppTag" || loadedFieldName(st.Val) != "AppTag" {
						continue
					}
					if pcCompare(sym.PathCond(f.Blocks[0], b, nil), classify, func(env map[string]bool) bool { return !env["matches"] && !env["notag"] }) == "" {
						good = true
					}
				}
			}
		}
		r.Check(good, "R16.11", "Pattern.Validate picks the defined app-tag", fd.Pos(), "top-level: if p.AppTag == \"\" { default } else { p.AppTag }", "the custom error-app-tag of a pattern is used only under a further condition (e.g. only when an error-message is defined as well): a pattern with error-app-tag alone reports the default tag")
	})

	r.Rule("R16.7", "decimal64 lexical/bound check is unconditional: after the integer-only form, validateDecimal64String has no success exit before the four exact comparisons with the 64-bit limits", 1)
	r.guard("R16.7", func() {
		f := w.SSAFunc(w.Func("schema", "validateDecimal64String"))
		if f == nil {
			panic(undecided{"schema.validateDecimal64String"})
		}
		// comparisons against a quantity computed from the 64-bit limits
		fromLimit := func(v ssa.Value) bool {
			seen := map[ssa.Value]bool{}
			var walk func(v ssa.Value, d int) bool
			walk = func(v ssa.Value, d int) bool {
				if v == nil || seen[v] || d > 8 {
					return false
				}
				seen[v] = true
				switch x := v.(type) {
				case *ssa.Const:
					if k, ok := intConstOf(x); ok && (k == math.MaxInt64 || k == math.MinInt64) {
						return true
					}
				case *ssa.BinOp:
					return walk(x.X, d+1) || walk(x.Y, d+1)
				case *ssa.Phi:
					for _, e := range x.Edges {
						if walk(e, d+1) {
							return true
						}
					}
				case *ssa.Convert:
					return walk(x.X, d+1)
				}
				return false
			}
			return walk(v, 0)
		}
		limitCmpOf := func(g *ssa.Function) []*ssa.BasicBlock {
			var out []*ssa.BasicBlock
			for _, b := range g.Blocks {
				for _, in := range b.Instrs {
					bo, ok := in.(*ssa.BinOp)
					if !ok {
						continue
					}
					switch bo.Op {
					case token.LSS, token.GTR, token.LEQ, token.GEQ, token.EQL, token.NEQ:
						if fromLimit(bo.X) || fromLimit(bo.Y) {
							out = append(out, b)
						}
					}
				}
			}
			return out
		}
		sym := NewSym(w)
		sym.Expand = false
		isSplitLenOne := func(a *pcAtom) string {
			if a.subj == "" || !a.set.equal(isetOf(1)) {
				return ""
			}
			if bo, ok := a.v.(*ssa.BinOp); ok {
				for _, side := range []ssa.Value{bo.X, bo.Y} {
					if arg, ok := isLenCall(side); ok {
						if c, ok := arg.(*ssa.Call); ok && c.Call.StaticCallee() != nil && c.Call.StaticCallee().String() == "strings.Split" {
							return "intform"
						}
					}
				}
			}
			return ""
		}
		nSucc, nEarly, maxCmp := 0, 0, 0
		why := ""
		// the exits of g, and of the functions of the package whose verdict g hands on as its own
		var exits func(g *ssa.Function, intForm bool, depth int)
		exits = func(g *ssa.Function, intForm bool, depth int) {
			limitCmp := limitCmpOf(g)
			if len(limitCmp) > maxCmp {
				maxCmp = len(limitCmp)
			}
			for _, b := range g.Blocks {
				ret, ok := b.Instrs[len(b.Instrs)-1].(*ssa.Return)
				if !ok || len(ret.Results) != 1 {
					continue
				}
				sawCut := false
				here := intForm || pcImplies(sym.PathCond(g.Blocks[0], b, nil), func(a *pcAtom) string {
					if n := isSplitLenOne(a); n != "" {
						return n
					}
					// strings.Cut(s, "."): no point found
					if ex, isEx := a.v.(*ssa.Extract); isEx && ex.Index == 2 {
						if c, isC := ex.Tuple.(*ssa.Call); isC && c.Call.StaticCallee() != nil && c.Call.StaticCallee().String() == "strings.Cut" {
							sawCut = true
							return "point"
						}
					}
					return ""
				}, func(env map[string]bool) bool { return env["intform"] || (sawCut && !env["point"]) }) == ""
				if c, isC := unspill(ret.Results[0]).(*ssa.Call); isC && depth < 2 {
					if h := c.Call.StaticCallee(); h != nil && h.Blocks != nil && h.Pkg == g.Pkg && len(limitCmp) < 4 {
						exits(h, here, depth+1)
						continue
					}
				}
				if !isNilConst(ret.Results[0]) {
					continue
				}
				nSucc++
				dom := 0
				for _, lb := range limitCmp {
					if lb.Dominates(b) {
						dom++
					}
				}
				if dom >= 4 {
					continue
				}
				nEarly++
				if !here {
					why = fmt.Sprintf("a success exit (%s) is preceded by only %d of the comparisons with the 64-bit limits and is not the integer-only form", w.PosStr(ret.Pos()), dom)
				}
			}
		}
		exits(f, false, 0)
		if why == "" && (nSucc == nEarly || maxCmp < 4) {
			why = fmt.Sprintf("%d success exits, %d of them early; %d limit comparisons", nSucc, nEarly, maxCmp)
		}
		r.Check(why == "", "R16.7", "validateDecimal64String success exits", f.Pos(), "every success exit other than the integer-only form is dominated by the four outer comparisons with the 64-bit limits", why+": an early success exit skips the exact comparison with the 64-bit limits, leaving only the float comparison, which cannot tell max from max+1 unit")
	})

	r.Rule("R16.8", "identity closure: every identity derived (transitively) from the base is listed — identityValues appends each derived identity and descends into it unconditionally", 1)
	r.guard("R16.8", func() {
		f := identityClosureFunc(w)
		// on every round of the loop over the derived identities: one is made, appended, and descended into
		ok := true
		for _, want := range []func(c ssa.CallInstruction) bool{
			func(c ssa.CallInstruction) bool {
				g := c.Common().StaticCallee()
				return g != nil && nm(g) == "NewIdentity"
			},
			func(c ssa.CallInstruction) bool {
				bi, isB := c.Common().Value.(*ssa.Builtin)
				if !isB || bi.Name() != "append" {
					return false
				}
				// the list of identities, not an argument list
				sl, isSl := c.Common().Args[0].Type().Underlying().(*types.Slice)
				if !isSl {
					return false
				}
				pt, isP := sl.Elem().(*types.Pointer)
				return isP && strings.HasSuffix(pt.Elem().String(), "schema.Identity")
			},
			func(c ssa.CallInstruction) bool { return c.Common().StaticCallee() == f },
		} {
			found, every, _ := everyIterationCalls(f, want)
			ok = ok && found && every
		}
		fd := f
		r.Check(ok, "R16.8", "identityValues lists every derived identity", fd.Pos(), "append + descend for each child, no skip", "a derived identity can be skipped (e.g. de-duplicated by its unqualified name): identities with the same local name in different modules, and everything derived from the skipped one, are rejected by the identityref")
	})
}

// emptyValidateTable reads (*empty).Validate as a decision table.  accept is
// "" when nil is returned exactly for the empty string; located is "" when
// the error carries path[:len(path)-1] exactly when a value is present and the
// path holds more than the value token.
func emptyValidateTable(w *World) (accept, located string, pos token.Pos) {
	f := w.SSAFunc(w.Method("schema", "empty", "Validate"))
	if f == nil || len(f.Params) != 4 {
		panic(undecided{"schema.(*empty).Validate"})
	}
	sym := NewSym(w)
	pathP, valP := f.Params[2], f.Params[3]
	nilCond, locCond := pcZ, pcZ
	for _, row := range sym.retTable(f, 0) {
		if isNilConst(row.val) {
			nilCond = pcOrF(nilCond, row.cond)
			continue
		}
		if c, ok := stripIface(row.val).(*ssa.Call); ok && len(c.Call.Args) == 2 {
			if sl, ok := c.Call.Args[1].(*ssa.Slice); ok && sl.X == ssa.Value(pathP) && sl.Low == nil && sl.High != nil {
				// path[:len(path)-1]
				if bo, ok := sl.High.(*ssa.BinOp); ok && bo.Op == token.SUB {
					if one, ok := intConstOf(bo.Y); ok && one == 1 {
						if arg, ok := isLenCall(bo.X); ok && arg == ssa.Value(pathP) {
							locCond = pcOrF(locCond, row.cond)
						}
					}
				}
			}
		}
	}
	classify := func(a *pcAtom) string {
		if a.subj == "" {
			return ""
		}
		bo, ok := a.v.(*ssa.BinOp)
		if !ok {
			return ""
		}
		for _, side := range []ssa.Value{bo.X, bo.Y} {
			if side == ssa.Value(valP) && a.set.equal(isetOf(0)) {
				return "empty"
			}
			if arg, ok := isLenCall(side); ok {
				if arg == ssa.Value(valP) && a.set.equal(isetOf(0)) {
					return "empty"
				}
				if arg == ssa.Value(pathP) {
					if a.set.equal(ISet{{0, 1}}) {
						return "!long"
					}
					if a.set.equal(ISet{{2, fullISet[0].hi}}) {
						return "long"
					}
				}
			}
		}
		return ""
	}
	accept = pcCompare(nilCond, classify, func(env map[string]bool) bool { return env["empty"] })
	located = pcCompare(locCond, classify, func(env map[string]bool) bool { return !env["empty"] && env["long"] })
	return accept, located, f.Pos()
}

// partsScan (R13.11 / R16.12): a value lies in a multi-part range iff some
// part holds it.  The type's Validate consults the parts one after the other:
// a loop over the receiver's parts that asks part.Validate(value) on every
// iteration and is left early only when that answer is nil — or the same scan
// handed to slices.ContainsFunc.  (A search that looks at one part only —
// binary search on an end point, the first part, the last — rejects values
// that another part holds.)
func partsScan(w *World, r *Report, rule string) {
	for _, c := range []struct{ typ, field string }{{"integer", "rbs"}, {"uinteger", "rbs"}, {"decimal64", "rbs"}} {
		m := w.Method("schema", c.typ, "Validate")
		f := w.SSAFunc(m)
		if f == nil {
			panic(undecided{"schema." + c.typ + ".Validate"})
		}
		what := c.typ + ".Validate tries every part of the range"
		isPartValidate := func(v ssa.Value) bool {
			call, ok := v.(*ssa.Call)
			return ok && call.Call.StaticCallee() != nil && nm(call.Call.StaticCallee()) == "Validate" && call.Call.StaticCallee() != f && call.Call.StaticCallee().Signature.Params().Len() == 1
		}
		sym := NewSym(w)
		sym.Expand = false // the part's own verdict is the atom
		why := "no scan of the parts found"
		// the method itself, or a helper of the package it hands the value to
		top := f
		for _, f := range bodiesDeep(top, 2) {
			if f.Pkg != top.Pkg && f.Pkg != nil {
				continue
			}
			// the library form
			for _, b := range f.Blocks {
				for _, in := range b.Instrs {
					call, ok := in.(*ssa.Call)
					if !ok {
						continue
					}
					list, test := containsFuncCall(call)
					if test == nil || loadedFieldName(list) != c.field {
						continue
					}
					has := false
					msg := pcCompare(sym.ResultCond(test, nil), func(a *pcAtom) string {
						if a.op == token.EQL && a.x != nil && a.y != nil && ((isNilConst(a.x) && isPartValidate(a.y)) || (isNilConst(a.y) && isPartValidate(a.x))) {
							has = true
							return "accepts"
						}
						return ""
					}, func(env map[string]bool) bool { return env["accepts"] })
					if has && msg == "" {
						why = ""
					} else {
						why = "the test handed to the scan is not `this part accepts the value`"
					}
				}
			}
			for _, l := range ssaLoops(f) {
				body := l.body()
				over := false
				for b := range body {
					for _, in := range b.Instrs {
						if ia, ok := in.(*ssa.IndexAddr); ok && isRangeIndex(ia.Index) && loadedFieldName(ia.X) == c.field {
							over = true
						}
					}
				}
				if !over {
					continue
				}
				var asked *ssa.Call
				found, every, _ := everyIterationCalls(f, func(ci ssa.CallInstruction) bool {
					call, ok := ci.(*ssa.Call)
					if ok && body[call.Block()] && isPartValidate(call) {
						asked = call
						return true
					}
					return false
				})
				if !found || !every || asked == nil {
					why = "the loop over the parts does not ask each part"
					continue
				}
				why = ""
				// left early only on acceptance
				for b := range body {
					for _, sc := range b.Succs {
						if body[sc] || b == l.Header {
							continue
						}
						has := false
						msg := pcImplies(pcAndF(sym.PathCond(l.Header, b, nil), sym.edgeCond(b, sc, nil)), func(a *pcAtom) string {
							if a.op == token.EQL && a.x != nil && a.y != nil && ((isNilConst(a.x) && a.y == ssa.Value(asked)) || (isNilConst(a.y) && a.x == ssa.Value(asked))) {
								has = true
								return "accepts"
							}
							return ""
						}, func(env map[string]bool) bool { return env["accepts"] })
						if !has || msg != "" {
							why = "the scan is left before a part has accepted the value"
						}
					}
				}
			}
		}
		r.Check(why == "", rule, what, f.Pos(), "accepted iff some part accepts", why+": a value that a later (or earlier) part of `a..b | c..d` holds is rejected — and a default with such a value fails the compile")
	}
}

// c16UnionMembersFunc: the function that builds the member types of a union —
// Compiler.getTypes, or makeUnion when getTypes was inlined into it (its only
// caller).
func c16UnionMembersFunc(w *World) *ssa.Function {
	if m := w.TryMethod("compile", "Compiler", "getTypes"); m != nil {
		if f := w.SSAFunc(m); f != nil {
			return f
		}
	}
	f := w.SSAFunc(w.Method("compile", "Compiler", "makeUnion"))
	if f == nil {
		panic(undecided{"Compiler.getTypes / makeUnion"})
	}
	return f
}

// identityClosureFunc: the function that lists the identities derived from a
// base — Compiler.identityValues, or, when that is gone, the one function of
// package compile that makes identities (schema.NewIdentity) and calls itself.
func identityClosureFunc(w *World) *ssa.Function {
	if m := w.TryMethod("compile", "Compiler", "identityValues"); m != nil {
		if f := w.SSAFunc(m); f != nil {
			return f
		}
	}
	var found []*ssa.Function
	for _, fn := range allFuncs(w.SSAPkg("compile")) {
		if isTestFile(w, fn.Pos()) || fn.Blocks == nil {
			continue
		}
		makes, recurses := false, false
		for _, b := range fn.Blocks {
			for _, in := range b.Instrs {
				if c, ok := in.(ssa.CallInstruction); ok {
					if g := c.Common().StaticCallee(); g != nil {
						makes = makes || nm(g) == "NewIdentity"
						recurses = recurses || g == fn
					}
				}
			}
		}
		if makes && recurses {
			found = append(found, fn)
		}
	}
	if len(found) != 1 {
		panic(undecided{"Compiler.identityValues (the function that lists the derived identities)"})
	}
	return found[0]
}

package main

import (
	"fmt"
	"go/ast"
	"go/token"
	"go/types"

	"golang.org/x/tools/go/cfg"
	"golang.org/x/tools/go/ssa"
)

// E13: open/close pairing on go/cfg. For one function, an "open" call and a
// "close" call (PushName/PopName, Lock/Unlock, StartElement/EndElement …):
// on every path an open is followed by exactly one close before the function
// returns, and there is no close without an open. The analysis is path
// sensitive in one boolean guard expression (the common idiom
// `if g { open() } … if g { close() }`), which it picks from the condition
// under which the opens stand; the guard must not be assigned in the function.
// `defer close()` counts as a close at the point of the defer.

type pairIssue struct {
	Pos token.Pos
	Why string
}

type pairSpec struct {
	IsOpen  func(ce *ast.CallExpr) bool
	IsClose func(ce *ast.CallExpr) bool
}

func pairCheck(p *packagesPackage, body *ast.BlockStmt, spec pairSpec) (issues []pairIssue, opens, closes int) {
	// guard: the condition text shared by all `if` statements that directly enclose an open
	guard := ""
	guardOK := true
	var findGuard func(n ast.Node, cond string)
	findGuard = func(n ast.Node, cond string) {
		ast.Inspect(n, func(x ast.Node) bool {
			switch y := x.(type) {
			case *ast.FuncLit:
				return false
			case *ast.IfStmt:
				if y.Init != nil {
					findGuard(y.Init, cond)
				}
				findGuard(y.Cond, cond)
				findGuard(y.Body, types.ExprString(y.Cond))
				if y.Else != nil {
					findGuard(y.Else, cond)
				}
				return false
			case *ast.CallExpr:
				if spec.IsOpen(y) && cond != "" {
					if guard == "" {
						guard = cond
					} else if guard != cond {
						guardOK = false
					}
				}
			}
			return true
		})
	}
	findGuard(body, "")
	if !guardOK {
		guard = ""
	}
	if guard != "" {
		ast.Inspect(body, func(x ast.Node) bool {
			if as, ok := x.(*ast.AssignStmt); ok {
				for _, l := range as.Lhs {
					if types.ExprString(l) == guard {
						guard = "" // the guard changes inside the function: no correlation assumed
					}
				}
			}
			return true
		})
	}
	g := cfg.New(body, func(ce *ast.CallExpr) bool {
		if id, ok := ce.Fun.(*ast.Ident); ok && id.Name == "panic" {
			return false
		}
		return true
	})
	const maxDepth = 2
	idx := func(depth, gv int) uint { return uint(depth*3 + gv) }
	type ev struct {
		open bool
		pos  token.Pos
	}
	events := map[*cfg.Block][]ev{}
	for _, b := range g.Blocks {
		for _, node := range b.Nodes {
			var visit func(n ast.Node)
			visit = func(n ast.Node) {
				ast.Inspect(n, func(y ast.Node) bool {
					switch c := y.(type) {
					case *ast.FuncLit:
						return false
					case *ast.CallExpr:
						for _, a := range c.Args {
							visit(a)
						}
						visit(c.Fun)
						if spec.IsOpen(c) {
							opens++
							events[b] = append(events[b], ev{true, c.Pos()})
						} else if spec.IsClose(c) {
							closes++
							events[b] = append(events[b], ev{false, c.Pos()})
						}
						return false
					}
					return true
				})
			}
			visit(node)
		}
	}
	if len(g.Blocks) == 0 {
		return
	}
	in := map[*cfg.Block]uint{g.Blocks[0]: 1 << idx(0, 0)}
	reported := map[token.Pos]bool{}
	report := func(pos token.Pos, why string) {
		if !reported[pos] {
			reported[pos] = true
			issues = append(issues, pairIssue{pos, why})
		}
	}
	for changed := true; changed; {
		changed = false
		for _, b := range g.Blocks {
			s := in[b]
			if s == 0 || !b.Live {
				continue
			}
			for _, e := range events[b] {
				var ns uint
				for d := 0; d <= maxDepth; d++ {
					for gv := 0; gv < 3; gv++ {
						if s&(1<<idx(d, gv)) == 0 {
							continue
						}
						if e.open {
							nd := d + 1
							if nd > maxDepth {
								nd = maxDepth
							}
							ns |= 1 << idx(nd, gv)
						} else {
							if d == 0 {
								report(e.pos, "close without a matching open on some path")
								ns |= 1 << idx(0, gv)
							} else {
								ns |= 1 << idx(d-1, gv)
							}
						}
					}
				}
				s = ns
			}
			if len(b.Succs) == 0 {
				for d := 1; d <= maxDepth; d++ {
					for gv := 0; gv < 3; gv++ {
						if s&(1<<idx(d, gv)) != 0 {
							pos := body.End()
							if len(b.Nodes) > 0 {
								pos = b.Nodes[len(b.Nodes)-1].Pos()
							}
							report(pos, "an open is not closed on a path that ends here")
						}
					}
				}
			}
			// branch on the guard?
			sT, sF := s, s
			if guard != "" && len(b.Succs) == 2 && len(b.Nodes) > 0 {
				if ce, ok := b.Nodes[len(b.Nodes)-1].(ast.Expr); ok {
					txt := types.ExprString(ce)
					neg := false
					if u, ok := ast.Unparen(ce).(*ast.UnaryExpr); ok && u.Op == token.NOT {
						txt, neg = types.ExprString(u.X), true
					}
					if txt == guard {
						var t, f uint
						for d := 0; d <= maxDepth; d++ {
							if s&(1<<idx(d, 0)) != 0 || s&(1<<idx(d, 1)) != 0 {
								t |= 1 << idx(d, 1)
							}
							if s&(1<<idx(d, 0)) != 0 || s&(1<<idx(d, 2)) != 0 {
								f |= 1 << idx(d, 2)
							}
						}
						sT, sF = t, f
						if neg {
							sT, sF = f, t
						}
					}
				}
			}
			for i, succ := range b.Succs {
				out := s
				if len(b.Succs) == 2 {
					if i == 0 {
						out = sT
					} else {
						out = sF
					}
				}
				if in[succ]|out != in[succ] {
					in[succ] |= out
					changed = true
				}
			}
		}
	}
	return
}

// lockPairing checks every function of the given packages that calls
// (*sync.Mutex/RWMutex).Lock/RLock on the package-level mutex: each lock is
// released on every path (defer or explicit), and no unlock happens without a
// lock. Returns the number of functions examined.
func lockPairing(w *World, r *Report, rule string, pkgs []string, consequence string) int {
	n := 0
	for _, key := range pkgs {
		p := w.Pkg(key)
		if p == nil {
			continue
		}
		isM := func(ce *ast.CallExpr, names ...string) bool {
			f := calleeOf(p, ce)
			if f == nil || f.Pkg() == nil || f.Pkg().Path() != "sync" {
				return false
			}
			for _, nm := range names {
				if f.Name() == nm {
					return true
				}
			}
			return false
		}
		for _, fd := range funcDecls(p) {
			if fd.Body == nil || isTestFile(w, fd.Pos()) {
				continue
			}
			bodies := []*ast.BlockStmt{fd.Body}
			for _, fl := range closuresIn(fd) {
				bodies = append(bodies, fl.Body)
			}
			for bi, body := range bodies {
				for _, pair := range [][2]string{{"Lock", "Unlock"}, {"RLock", "RUnlock"}} {
					iss, o, c := pairCheck(p, body, pairSpec{
						IsOpen:  func(ce *ast.CallExpr) bool { return isM(ce, pair[0]) },
						IsClose: func(ce *ast.CallExpr) bool { return isM(ce, pair[1]) },
					})
					if o == 0 && c == 0 {
						continue
					}
					n++
					name := key + "." + funcDeclName(fd)
					if bi > 0 {
						name += " (closure)"
					}
					why := ""
					if len(iss) > 0 {
						why = iss[0].Why + " at " + w.PosStr(iss[0].Pos)
					}
					r.Check(len(iss) == 0, rule, name+": "+pair[0]+"/"+pair[1], fd.Pos(), "released on every path", "lock discipline broken ("+why+"): "+consequence)
				}
			}
		}
	}
	return n
}

// ssaPairing is a second, path-condition based view of open/close pairing
// for functions without deferred closes: within each loop iteration (or the
// function, outside loops) the opens and closes can be matched one to one such
// that the close is reached under exactly the condition the open was, and lies
// after it.  An early exit between the two, or a close under a weaker or
// stronger test, makes the two conditions differ.  "" = balanced.
func ssaPairing(w *World, f *ssa.Function, isOpen, isClose func(*ssa.Call) bool) string {
	if f == nil {
		return "no body"
	}
	sym := NewSym(w)
	type ev struct {
		call *ssa.Call
		ctx  *ssa.BasicBlock // loop header or entry
		cond *pcF
	}
	var opens, closes []ev
	for _, b := range f.Blocks {
		for _, in := range b.Instrs {
			if _, isDefer := in.(*ssa.Defer); isDefer {
				return "deferred calls: not decided by this view"
			}
			c, ok := in.(*ssa.Call)
			if !ok {
				continue
			}
			start := f.Blocks[0]
			if l, in := loopOf(f, b); in {
				start = l.Header
			}
			switch {
			case isOpen(c):
				opens = append(opens, ev{c, start, sym.PathCond(start, b, nil)})
			case isClose(c):
				closes = append(closes, ev{c, start, sym.PathCond(start, b, nil)})
			}
		}
	}
	if len(opens) != len(closes) {
		return fmt.Sprintf("%d opens, %d closes", len(opens), len(closes))
	}
	// forward reachability (back edges excluded)
	reaches := func(a, b *ssa.BasicBlock) bool {
		seen := map[*ssa.BasicBlock]bool{}
		var walk func(x *ssa.BasicBlock) bool
		walk = func(x *ssa.BasicBlock) bool {
			if x == b {
				return true
			}
			if seen[x] {
				return false
			}
			seen[x] = true
			for _, s := range x.Succs {
				if s.Dominates(x) {
					continue
				}
				if walk(s) {
					return true
				}
			}
			return false
		}
		return walk(a)
	}
	used := map[int]bool{}
	for _, o := range opens {
		matched := false
		for j, c := range closes {
			if used[j] || c.ctx != o.ctx {
				continue
			}
			if pcEquiv(o.cond, c.cond) != "" {
				continue
			}
			ob, cb := o.call.Block(), c.call.Block()
			after := false
			if ob == cb {
				for _, in := range ob.Instrs {
					if in == ssa.Instruction(o.call) {
						after = true
						break
					}
					if in == ssa.Instruction(c.call) {
						break
					}
				}
			} else {
				after = reaches(ob, cb) && !reaches(cb, ob)
			}
			if !after {
				continue
			}
			used[j] = true
			matched = true
			break
		}
		if !matched {
			return "an open at " + w.PosStr(o.call.Pos()) + " has no close that is reached under exactly the same condition after it"
		}
	}
	return ""
}

package main

import (
	"fmt"
	"go/ast"
	"go/constant"
	"go/token"
	"go/types"
	"os"
	"strings"

	"golang.org/x/tools/go/packages"

	"golang.org/x/tools/go/ssa"
)

func init() { register("C07", checkC07) }

func parseCone(w *World) map[*types.Func]*ast.FuncDecl {
	roots := []*types.Func{w.Method("parse", "Tree", "Parse"), w.Method("parse", "lexer", "run")}
	return staticCone(w, []string{"parse"}, roots, true)
}

var c07Reviewed = []reviewedEntry{
	// lexer: pos/start never exceed len(input): next() stops at len, the comment scanners add the
	// length of a prefix that HasPrefix/Index found
	{"lexer.next", "‹*parse.lexer›.input[‹*parse.lexer›.pos:]", "guarded by int(l.pos) >= len(l.input) ⇒ return eof", "lenguard"},
	{"lexer.emit", "‹*parse.lexer›.input[‹*parse.lexer›.start:‹*parse.lexer›.pos]", "start ≤ pos ≤ len(input): pos only grows by widths of decoded runes or lengths of matched prefixes; start is a former pos", ""},
	{"lexer.lineNumber", "‹*parse.lexer›.input[:‹*parse.lexer›.lastPos]", "lastPos is the start of an emitted item", ""},
	{"lexComment", "‹*parse.lexer›.input[‹*parse.lexer›.pos:]", "pos was advanced by the length of the comment opener that HasPrefix found at pos", ""},
	{"lexCommentLine", "‹*parse.lexer›.input[‹*parse.lexer›.pos:]", "pos was advanced by the length of the comment opener that HasPrefix found at pos", ""},
	{"lexStmt", "‹*parse.lexer›.input[‹*parse.lexer›.pos:]", "pos ≤ len(input) (see emit)", ""},
	{"lexQuote", "‹*parse.lexer›.input[‹*parse.lexer›.start]", "lexStmt has just consumed the quote at start (start < pos)", ""},
	{"itemType.String", "types[i]", "item types are the constants that index the table", ""},
	{"item.String", "", "", ""},
	// parser
	{"Tree.next", "‹*parse.Tree›.token[‹*parse.Tree›.peekCount]", "peekCount is 0..2 after the decrement: it is only set to 1, 2 or 3", ""},
	{"Tree.peek", "t.token[t.peekCount - 1]", "guarded by peekCount > 0; peekCount ≤ 3", ""},
	{"Tree.done", "t.token[:]", "full slice of an array", ""},
	{"Tree.done", "empty[:]", "full slice of an array", ""},
	{"Tree.ErrorContextPosition", "‹*parse.Tree›.text[:‹int›]", "pos is the position of a node of this text", ""},
	{"Tree.errorf", "‹*parse.Tree›.lex.input[:‹*parse.Tree›.lex.lastPos]", "lastPos is the start of an emitted item", ""},
	{"escapeSequenceSubstitution", "‹string›[:1]", "st is non-empty (the empty case continues)", ""},
	{"escapeSequenceSubstitution", "‹string›[1:]", "st is non-empty (the empty case continues)", ""},
	{"openQuotePos", "‹*parse.Tree›.lex.input[:‹*parse.Tree›.lex.lastPos]", "lastPos is the start of an emitted item", ""},
	{"openQuotePos", "‹*parse.Tree›.lex.input[:‹int›]", "the string item lies before the closing quote that was just consumed, so LastIndex finds it", ""},
	{"openQuotePos", "‹*parse.Tree›.lex.input[‹int›:‹int›]", "lnBgn is a line start at or before posStart", ""},
	{"trimLeadWS", "‹string›[‹int›:]", "i is a range index of s", ""},
	{"trimLeadWS", "‹string›[:‹int› - ‹int›]", "wsCount first reaches trimLen by a step of at most 8", ""},
	{"trimLeadWS", "‹string›[‹int› + 1:]", "i is the index of a one-byte blank", ""},
	{"trimWhitespace", "‹string›[len(‹string›) - 1]", "guarded by len(str) > 0 && … in the same condition", "lenguard"},
	{"trimWhitespace", "‹string›[:len(‹string›) - ‹int›]", "cr is 1 only when the last byte is CR (set under len(str) > 0), so len(str) ≥ cr; R08.9 shows cr is not carried over from another line", ""},
	{"trimWhitespace", "‹[2]string›[‹int›]", "cr is 0 or 1", ""},
	// nodes and arguments
	{"IdArg.Parse", "‹string›[:3]", "guarded by len(str) >= 3", "lenguard"},
	{"IdArg.Parse", "‹string›[0]", "guarded by len(str) == 0 ⇒ return", "lenguard"},
	{"IdArg.Parse", "‹string›[‹int›]", "loop index below len(str)", ""},
	{"IdRefArg.Parse", "‹[]string›[0]", "inside case len(parts) == 1 or 2", ""},
	{"IdRefArg.Parse", "‹[]string›[1]", "inside case len(parts) == 2", ""},
	{"DateArg.Parse", "‹string›[:‹int›]", "i is 4 resp. 2 with len(str) == 10 resp. 5", ""},
	{"DateArg.Parse", "‹string›[‹int› + 1:]", "i is 4 resp. 2 with len(str) == 10 resp. 5", ""},
	{"KeyArg.split", "‹string›[‹int›]", "loop index below len(str)", ""},
	{"KeyArg.split", "‹string›[‹int›:‹int›]", "start ≤ pos ≤ len(str)", ""},
	{"UniqueArg.split", "‹string›[‹int›]", "loop index below len(str)", ""},
	{"UniqueArg.split", "‹string›[‹int›:‹int›]", "start ≤ pos ≤ len(str)", ""},
	{"AbsoluteSchemaArg.Parse", "‹[]string›[0]", "guarded by len(strs) < 2 ⇒ return", "lenguard"},
	{"AbsoluteSchemaArg.Parse", "‹[]string›[1:]", "guarded by len(strs) < 2 ⇒ return", "lenguard"},
	{"DescendantSchemaArg.Parse", "‹[]string›[0]", "guarded by len(strs) < 1 ⇒ return (Split never returns an empty slice)", "lenguard"},
	{"RangeArg.Parse", "‹[]string›[0]", "inside case len(rbs) == 1 or 2", ""},
	{"RangeArg.Parse", "‹[]string›[1]", "inside case len(rbs) == 2", ""},
	{"LengthArg.Parse", "‹[]string›[0]", "inside case len(bs) == 1 or 2", ""},
	{"LengthArg.Parse", "‹[]string›[1]", "inside case len(bs) == 2", ""},
	{"getArgByType", "nodeNames[‹parse.NodeType›]", "only in the default arm, with a NodeType constant", ""},
	{"getArgByType", "panic(fmt.Errorf(\"Unexpected type %s\", nodeNames[ntype]))", "unreachable for RFC keywords: R09.3 shows every statement has a case; NodeTypeFromName yields only table types", ""},
	{"NodeType.String", "nodeNames[t]", "node types are the constants that index the table", ""},
	{"Tree.recover", "‹interface{}›.(error)", "every explicit panic in the cone carries an error (R07.3) and runtime errors are re-raised just above", ""},
	{"hasArgument.ArgDate", "‹*parse.hasArgument›.arg.(*DateArg)", "only called on revision statements, whose argument is a DateArg by getArgByType (R09.3)", ""},
	{"node.ChildByType", "ch[0]", "guarded by len(ch) < 1 ⇒ return", "lenguard"},
}

func checkC07(w *World, r *Report) {
	r.NotDecided = []string{
		"nil dereferences (no sound nilness analysis in reach)",
		"stack depth of the recursive-descent parser on deeply nested input",
		"index/slice accesses are discharged by guard patterns or a reviewed table, not by a general range analysis",
	}
	r.Assumptions = []string{"a runtime.Error raised in the parser is deliberately re-raised by Tree.recover; only the obligations of R07.5 bound them"}

	r.Rule("R07.1", "every loop of the YANG lexer leaves when the look-ahead is end of input and consumes input otherwise", 4)
	r.guard("R07.1", func() { c07LexerLoops(w, r) })

	r.Rule("R07.11", "the word state makes progress: lexStmt un-reads a rune and hands over to lexString only for runes with which lexString's scan consumes at least one rune — otherwise the two states would alternate for ever without advancing (an empty item per round)", 1)
	r.guard("R07.11", func() { c07WordProgress(w, r) })

	r.Rule("R07.12", "line and column speak of the same lines: the line terminators lexer.lineNumber counts (the constant handed to strings.Count, or the characters a counting loop tests for) are exactly the one Tree.errorf measures the column from (the constant of strings.LastIndex) — otherwise a text with other line ends is given a line beyond its last", 1)
	r.guard("R07.12", func() {
		ln := w.SSAFunc(w.Method("parse", "lexer", "lineNumber"))
		ef := w.SSAFunc(w.Method("parse", "Tree", "errorf"))
		if ln == nil || ef == nil {
			panic(undecided{"lexer.lineNumber / Tree.errorf"})
		}
		constSets := func(f *ssa.Function, callees ...string) (ISet, bool) {
			var set ISet
			found := false
			var blocks []*ssa.BasicBlock
			for _, g := range bodiesDeep(f, 2) {
				if g == f || (g.Pkg == f.Pkg && g.Parent() == nil && nm(g) != "lineNumber") {
					blocks = append(blocks, g.Blocks...)
				}
			}
			for _, b := range blocks {
				for _, in := range b.Instrs {
					c, ok := in.(*ssa.Call)
					if !ok || c.Call.StaticCallee() == nil || len(c.Call.Args) != 2 {
						continue
					}
					for _, name := range callees {
						if c.Call.StaticCallee().String() != name {
							continue
						}
						k, isK := c.Call.Args[1].(*ssa.Const)
						if !isK || k.Value == nil {
							return nil, false
						}
						found = true
						switch k.Value.Kind() {
						case constant.String:
							sv := constant.StringVal(k.Value)
							if len(sv) != 1 {
								return nil, false
							}
							set = set.union(isetOf(int64(sv[0])))
						case constant.Int:
							iv, _ := constant.Int64Val(k.Value)
							set = set.union(isetOf(iv))
						}
					}
				}
			}
			return set, found
		}
		counted, okC := constSets(ln, "strings.Count", "bytes.Count")
		if !okC {
			// a counting loop: the characters for which the count goes up
			sym := NewSym(w)
			sym.Expand = true
			for _, l := range ssaLoops(ln) {
				for _, in := range l.Header.Instrs {
					phi, isPhi := in.(*ssa.Phi)
					if !isPhi || !isIntegerType(phi.Type()) || isRangeIndexPhi(phi) {
						continue
					}
					var incs []*ssa.BinOp
					for bb := range l.body() {
						for _, in2 := range bb.Instrs {
							if bo, isAdd := in2.(*ssa.BinOp); isAdd && bo.Op == token.ADD && bo.X == ssa.Value(phi) {
								incs = append(incs, bo)
							}
						}
					}
					for _, bo := range incs {
						cond := sym.PathCond(l.Header, bo.Block(), nil)
						for _, a := range cond.atoms() {
							if a.subj == "" {
								continue
							}
							if vals, decided := pcValuesWhen(cond, a.subj); decided && len(vals) > 0 && len(vals) < 8 && !vals.equal(fullISet) {
								counted, okC = counted.union(vals), true
							}
						}
					}
				}
			}
		}
		measured, okM := constSets(ef, "strings.LastIndex", "strings.LastIndexByte", "bytes.LastIndex", "bytes.LastIndexByte")
		if !okC || !okM {
			panic(undecided{"lineNumber / errorf: the line terminator counted and the one the column is measured from"})
		}
		r.Check(counted.equal(measured) && counted.equal(isetOf('\n')), "R07.12", "lineNumber and errorf agree on the line terminator", ln.Pos(), "both "+measured.String(),
			"the line count goes up at "+counted.String()+" but the column is measured from the last "+measured.String()+": for texts with CR LF (or bare CR) line ends the reported line lies beyond the end of the text")
	})

	r.Rule("R07.2", "nothing is left running: the lexer goroutine's channel is closed when its state machine ends, and the parser's error exit drains the channel before dropping the lexer", 3)
	r.guard("R07.2", func() { c07Drain(w, r) })

	r.Rule("R07.3", "Tree.Parse defers Tree.recover; every explicit panic reachable from it carries a value whose static type implements error (the handler asserts e.(error) and re-raises runtime errors)", 4)
	r.guard("R07.3", func() { c07PanicTyping(w, r) })

	r.Rule("R07.5", "no run-time panic from indexing: every index/slice expression and unchecked type assertion in the cone of Tree.Parse and of the lexer goroutine is discharged by a guard that is still present or by a reviewed entry", 30)
	r.guard("R07.5", func() {
		scanPanicObligationsOpt(w, r, "R07.5", parseCone(w), c07Reviewed, true, true, "reachable from parse.Parse", "a crafted text may crash the parser (a panic in the lexer goroutine cannot even be recovered)")
	})

	r.Rule("R07.7", "lexer position invariant 0 <= start <= pos <= len(input): every write to lexer.pos/start/width/input is one of the invariant-preserving forms (advance by a decoded width, by Index result + c with c <= len(needle) on the found path, to the end of the input, over a prefix lexStmt matched; retreat by width; start = pos)", 10)
	r.guard("R07.7", func() { c07PosInvariant(w, r) })
	r.Rule("R07.8", "backup() undoes exactly one next(): on every path a backup() call is preceded by next() with no emit/ignore/peek/accept/backup in between", 4)
	r.guard("R07.8", func() { c07BackupDiscipline(w, r) })

	r.Rule("R07.9", "goroutine confinement: the unlocked string interner and the lexer fields pos/start/width/bracketDepth are touched only by the lexer goroutine's code, lastPos only by the parser's; the item channel is the only thing the two sides share", 6)
	r.guard("R07.9", func() { c07Confinement(w, r) })

	r.Rule("R07.10", "the located error text is built from constant formats: in Tree.errorf every fmt format argument is a constant or the function's own format parameter handed on with its own arguments — the name of the input and the message are data, never part of a format (a '%' in a file name must not garble the location)", 2)
	r.guard("R07.10", func() {
		f := w.SSAFunc(w.Method("parse", "Tree", "errorf"))
		if f == nil {
			panic(undecided{"Tree.errorf"})
		}
		n := 0
		for _, b := range f.Blocks {
			for _, in := range b.Instrs {
				c, ok := in.(*ssa.Call)
				if !ok || c.Call.StaticCallee() == nil {
					continue
				}
				name := c.Call.StaticCallee().String()
				if name != "fmt.Sprintf" && name != "fmt.Errorf" {
					continue
				}
				n++
				fa := c.Call.Args[0]
				_, isConst := fa.(*ssa.Const)
				isParam := false
				if p, ok := fa.(*ssa.Parameter); ok && p == f.Params[1] {
					// handed on together with the variadic arguments of errorf itself
					if len(c.Call.Args) == 2 && c.Call.Args[1] == ssa.Value(f.Params[2]) {
						isParam = true
					}
				}
				r.Check(isConst || isParam, "R07.10", fmt.Sprintf("Tree.errorf: %s #%d", name, n), c.Pos(), "constant format (or errorf's own format with its own arguments)", "the format handed to "+name+" is computed from data (`"+fa.String()+"`): a '%' in the input name or message is interpreted as a verb, the location is garbled and the real arguments are lost")
			}
		}
		if n == 0 {
			panic(undecided{"Tree.errorf formats nothing"})
		}
	})

	r.Rule("R07.6", "a nil error comes with a root: the success return of Tree.Parse follows parse(), which assigns Root from stmt(), and stmt returns the node it built", 3)
	r.guard("R07.6", func() { c07Root(w, r) })
}

func c07LexerLoops(w *World, r *Report) {
	p := w.Pkg("parse")
	eofC, _ := scopeLookup(p.Types.Scope(), "eof").(*types.Const)
	if eofC == nil {
		panic(undecided{"parse.eof"})
	}
	eofV := int64(-1)
	if v, ok := intConst(eofC.Val()); ok {
		eofV = v
	}
	next := w.SSAFunc(w.Method("parse", "lexer", "next"))
	peek := w.SSAFunc(w.Method("parse", "lexer", "peek"))
	// l.next() reads and consumes a rune, l.peek() reads the same rune without consuming it
	runeOf := func(v ssa.Value) (*ssa.Call, bool) {
		c, ok := v.(*ssa.Call)
		if !ok {
			return nil, false
		}
		switch c.Call.StaticCallee() {
		case next:
			return c, true
		case peek:
			return c, false
		}
		return nil, false
	}
	sp := w.SSAPkg("parse")
	// call sites of the functions of the package, for loops whose test is handed in by the caller
	sites := map[*ssa.Function][]*ssa.Call{}
	for _, g := range allFuncs(sp) {
		for _, b := range g.Blocks {
			for _, in := range b.Instrs {
				if c, ok := in.(*ssa.Call); ok && c.Call.StaticCallee() != nil {
					sites[c.Call.StaticCallee()] = append(sites[c.Call.StaticCallee()], c)
				}
			}
		}
	}
	for _, fd := range funcDecls(p) {
		file := w.Fset.Position(fd.Pos()).Filename
		if !strings.HasSuffix(file, "/lex.go") {
			continue
		}
		name := funcDeclName(fd)
		if name == "lexer.run" || name == "lexer.drain" {
			continue // not a character loop: R07.2
		}
		obj, _ := p.TypesInfo.Defs[fd.Name].(*types.Func)
		top := w.SSAFunc(obj)
		if top == nil {
			continue
		}
		fns := []*ssa.Function{top}
		for i := 0; i < len(fns); i++ {
			fns = append(fns, fns[i].AnonFuncs...)
		}
		for _, f := range fns {
			report := func(c string, ll lexLoop) {
				exits := ll.leavesAt(eofV)
				r.Check(exits && ll.consumes, "R07.1", c, ll.pos, "goes round only for runes other than eof; consumes a rune each time",
					fmt.Sprintf("at end of input the loop goes round again (exits=%v) or an iteration does not consume (consumes=%v): next() does not advance at eof, so the lexer goroutine spins forever and Parse never returns", exits, ll.consumes))
			}
			for i, ll := range runeLoops(w, f, nil, runeOf) {
				c := fmt.Sprintf("%s loop", name)
				if i > 0 {
					c = fmt.Sprintf("%s loop #%d", name, i+1)
				}
				hasFnParam := false
				for _, prm := range f.Params {
					if _, isSig := prm.Type().Underlying().(*types.Signature); isSig {
						hasFnParam = true
					}
				}
				if (ll.consumes && ll.leavesAt(eofV)) || !hasFnParam || len(sites[f]) == 0 || f.Parent() != nil {
					report(c, ll)
					continue
				}
				// the test is a function the callers hand in: one obligation per caller
				for _, site := range sites[f] {
					lls := runeLoops(w, f, &symCtx{call: site}, runeOf)
					if i < len(lls) {
						report(c+" (as called from "+funcKey(site.Parent())+")", lls[i])
					}
				}
			}
		}
	}
}

// c07WordProgress (R07.11).  lexStmt reads a rune r, and in the arm that
// hands over to lexString puts it back; lexString then looks at the same rune
// through peek().  The runes that can reach that arm must all be runes for
// which lexString (helpers it hands the scan to included) gets to a next()
// call — whatever the other tests on the way say.
func c07WordProgress(w *World, r *Report) {
	stmt := w.SSAFunc(w.Func("parse", "lexStmt"))
	word := w.SSAFunc(w.Func("parse", "lexString"))
	next := w.SSAFunc(w.Method("parse", "lexer", "next"))
	peek := w.SSAFunc(w.Method("parse", "lexer", "peek"))
	if stmt == nil || word == nil {
		panic(undecided{"parse.lexStmt / parse.lexString"})
	}
	sym := NewSym(w)
	sym.Expand = true
	// 1. the runes lexStmt hands to lexString
	var handed ISet
	nArms := 0
	for _, b := range stmt.Blocks {
		ret, ok := b.Instrs[len(b.Instrs)-1].(*ssa.Return)
		if !ok || len(ret.Results) != 1 {
			continue
		}
		rv := ret.Results[0]
		if ct, ok := rv.(*ssa.ChangeType); ok {
			rv = ct.X
		}
		if fn, ok := rv.(*ssa.Function); !ok || fn != word {
			continue
		}
		nArms++
		// the rune read in this iteration: the next() call that dominates the arm
		var read *ssa.Call
		for _, rb := range stmt.Blocks {
			for _, in := range rb.Instrs {
				if c, ok := in.(*ssa.Call); ok && c.Call.StaticCallee() == next && (rb == b || rb.Dominates(b)) {
					read = c
				}
			}
		}
		if read == nil {
			panic(undecided{"lexStmt: the rune read before handing over to lexString"})
		}
		from := stmt.Blocks[0]
		if l, in := loopOf(stmt, b); in {
			from = l.Header
		}
		vals, decided := pcValuesWhen(sym.PathCond(from, b, nil), sym.Key(read, nil))
		if !decided {
			panic(undecided{"lexStmt: the runes handed to lexString"})
		}
		handed = handed.union(vals)
	}
	if nArms == 0 {
		panic(undecided{"lexStmt never hands over to lexString"})
	}
	// 2. the runes for which lexString consumes: reaches a next() call, in itself or a helper
	var consume func(f *ssa.Function, ctx *symCtx, depth int) (*pcF, []string)
	consume = func(f *ssa.Function, ctx *symCtx, depth int) (*pcF, []string) {
		out := pcZ
		var subj []string
		for _, b := range f.Blocks {
			for _, in := range b.Instrs {
				c, ok := in.(*ssa.Call)
				if !ok {
					continue
				}
				g := c.Call.StaticCallee()
				switch {
				case g == next:
					out = pcOrF(out, sym.PathCond(f.Blocks[0], b, ctx))
				case g == peek:
					subj = append(subj, sym.Key(c, ctx))
				case g != nil && depth < 2 && g.Blocks != nil && g != f && strings.HasPrefix(pkgPathOf(g), modPath) && calleesDeep(g, 2)[next]:
					sub, ss := consume(g, &symCtx{call: c, parent: ctx}, depth+1)
					out = pcOrF(out, pcAndF(sym.PathCond(f.Blocks[0], b, ctx), sub))
					subj = append(subj, ss...)
				}
			}
		}
		return out, subj
	}
	reaches, subjects := consume(word, nil, 0)
	var sure ISet
	for _, sk := range subjects {
		if stuck, decided := pcValuesWhen(pcNotF(reaches), sk); decided {
			sure = sure.union(stuck.complement())
		}
	}
	// the other spelling: read first, give the rune back when it ends the word — a next() that is
	// reached whatever the input is, and the runes for which no backup() follows it
	backup := w.SSAFunc(w.Method("parse", "lexer", "backup"))
	for _, b := range word.Blocks {
		for _, in := range b.Instrs {
			c, ok := in.(*ssa.Call)
			if !ok || c.Call.StaticCallee() != next || backup == nil {
				continue
			}
			if always, decided := pcEvalFree(sym.PathCond(word.Blocks[0], b, nil), func(*pcAtom) (bool, bool) { return false, false }); !decided || !always {
				continue
			}
			unread := pcZ
			for _, bb := range word.Blocks {
				for _, in2 := range bb.Instrs {
					if bc, ok := in2.(*ssa.Call); ok && bc.Call.StaticCallee() == backup && (bb != b || true) {
						if bb == b {
							unread = pcT
						} else {
							unread = pcOrF(unread, sym.PathCond(b, bb, nil))
						}
					}
				}
			}
			if stuck, decided := pcValuesWhen(unread, sym.Key(c, nil)); decided {
				sure = sure.union(stuck.complement())
			}
		}
	}
	missing := handed.minus(sure)
	if os.Getenv("YV_DEBUG") != "" {
		fmt.Println("DEBUG R07.11 reaches:", reaches.String(), "subjects:", subjects, "handed:", handed.String(), "sure:", sure.String())
	}
	r.Check(len(missing) == 0, "R07.11", "lexStmt → lexString makes progress", word.Pos(), "every rune handed over is consumed by the word scan",
		"for the runes "+missing.String()+" lexStmt puts the rune back and enters lexString, which may stop at once without consuming it: the lexer emits empty items for ever and Parse never returns")
}

func c07Drain(w *World, r *Report) {
	p := w.Pkg("parse")
	items := w.Field("parse", "lexer", "items")
	run := w.Method("parse", "lexer", "run")
	// go l.run()
	goes := 0
	for _, fd := range funcDecls(p) {
		ast.Inspect(fd.Body, func(n ast.Node) bool {
			if g, ok := n.(*ast.GoStmt); ok {
				goes++
				if calleeOf(p, g.Call) != run {
					r.Fail("R07.2", "go statement in "+funcDeclName(fd), g.Pos(), "a goroutine other than the lexer state machine is started by the parser")
				}
			}
			return true
		})
	}
	// run closes items after its loop (last statement) or by defer
	rfd, _ := w.FuncDecl(run)
	closes := false
	isCloseItems := func(e ast.Expr) bool {
		ce, ok := e.(*ast.CallExpr)
		if !ok || len(ce.Args) != 1 {
			return false
		}
		id, ok := ce.Fun.(*ast.Ident)
		return ok && id.Name == "close" && fieldOfSel(p, ce.Args[0]) == items
	}
	if k := len(rfd.Body.List); k > 0 {
		if es, ok := rfd.Body.List[k-1].(*ast.ExprStmt); ok && isCloseItems(es.X) {
			closes = true
		}
		for _, s := range rfd.Body.List {
			if ds, ok := s.(*ast.DeferStmt); ok && isCloseItems(ds.Call) {
				closes = true
			}
		}
	}
	r.Check(goes == 1 && closes, "R07.2", "lexer.run closes its channel", rfd.Pos(), "close(l.items) when the state machine ends", "the producer never closes the item channel: a consumer that drains it would block forever, and one that does not leaves the goroutine blocked on its next send")
	// a drain function: a loop that receives from items and is left only when the channel is closed
	// (`for range l.items {}` and the explicit `v, ok := <-l.items` loop are the same code)
	var drains []*types.Func
	for _, f := range allFuncs(w.SSAPkg("parse")) {
		if f.Parent() != nil || f.Object() == nil {
			continue
		}
		sym := NewSym(w)
		for _, l := range ssaLoops(f) {
			body := l.body()
			var recv *ssa.UnOp
			for b := range body {
				for _, in := range b.Instrs {
					if u, ok := in.(*ssa.UnOp); ok && u.Op == token.ARROW && u.CommaOk {
						if ld, ok := u.X.(*ssa.UnOp); ok && ld.Op == token.MUL {
							if fa, ok := ld.X.(*ssa.FieldAddr); ok && isFieldAddrOf(fa, items) {
								recv = u
							}
						}
					}
				}
			}
			if recv == nil {
				continue
			}
			var okVal ssa.Value
			for _, ref := range *recv.Referrers() {
				if ex, isEx := ref.(*ssa.Extract); isEx && ex.Index == 1 {
					okVal = ex
				}
			}
			if okVal == nil {
				continue
			}
			sym.Name(okVal, "open")
			onlyWhenClosed := true
			for b := range body {
				for _, sc := range b.Succs {
					if body[sc] {
						continue
					}
					leave := pcAndF(sym.PathCond(l.Header, b, nil), sym.edgeCond(b, sc, nil))
					has := false
					msg := pcImplies(leave, func(a *pcAtom) string {
						if a.key == "open" {
							has = true
							return "open"
						}
						return ""
					}, func(env map[string]bool) bool { return !env["open"] })
					if msg != "" || !has {
						onlyWhenClosed = false
					}
				}
			}
			if onlyWhenClosed {
				if fo, ok := f.Object().(*types.Func); ok {
					drains = append(drains, fo)
				}
			}
		}
	}
	// Tree.recover: error arm calls a drain before stopParse / before giving up the lexer
	rec := w.Method("parse", "Tree", "recover")
	cfd, _ := w.FuncDecl(rec)
	okDrain := false
	if rf := w.SSAFunc(rec); rf != nil {
		lexField := w.Field("parse", "Tree", "lex")
		// giving up the lexer: t.lex = nil, here or in a helper of the package
		givesUp := func(g *ssa.Function) bool {
			for _, gb := range g.Blocks {
				for _, gin := range gb.Instrs {
					if st, ok := gin.(*ssa.Store); ok {
						if fa, ok := st.Addr.(*ssa.FieldAddr); ok && isFieldAddrOf(fa, lexField) && isNilConst(st.Val) {
							return true
						}
					}
				}
			}
			return false
		}
		var gives, drainCalls []ssa.Instruction
		for _, bl := range rf.Blocks {
			for _, in := range bl.Instrs {
				switch x := in.(type) {
				case *ssa.Store:
					if fa, ok := x.Addr.(*ssa.FieldAddr); ok && isFieldAddrOf(fa, lexField) && isNilConst(x.Val) {
						gives = append(gives, in)
					}
				case *ssa.Call:
					g := x.Call.StaticCallee()
					if g == nil {
						continue
					}
					for _, d := range drains {
						if g.Object() == types.Object(d) {
							drainCalls = append(drainCalls, in)
						}
					}
					if g.Pkg == rf.Pkg && g.Blocks != nil && givesUp(g) {
						gives = append(gives, in)
					}
				}
			}
		}
		okDrain = len(gives) > 0
		for _, gv := range gives {
			before := false
			for _, d := range drainCalls {
				if instrFlowsTo(d, gv) && !instrFlowsTo(gv, d) {
					before = true
				}
			}
			if !before {
				okDrain = false
			}
		}
	}
	r.Check(len(drains) > 0 && okDrain, "R07.2", "Tree.recover drains the lexer", cfd.Pos(), "drain before stopParse on the error path", "when the parser gives up early nobody receives from the lexer any more: its goroutine stays blocked on a send for the life of the process")
	// Parse defers recover, and the only receiver besides drain is nextItem
	parse := w.Method("parse", "Tree", "Parse")
	pfd, _ := w.FuncDecl(parse)
	deferred := false
	for _, s := range pfd.Body.List {
		if ds, ok := s.(*ast.DeferStmt); ok && calleeOf(p, ds.Call) == rec {
			deferred = true
		}
	}
	r.Check(deferred, "R07.2", "Tree.Parse defers Tree.recover", pfd.Pos(), "defer t.recover(&err)", "Parse no longer installs the recover handler that drains the lexer")
}

func c07PanicTyping(w *World, r *Report) {
	p := w.Pkg("parse")
	cone := parseCone(w)
	errT := types.Universe.Lookup("error").Type().Underlying().(*types.Interface)
	n := 0
	for f, fd := range cone {
		_ = f
		ast.Inspect(fd.Body, func(x ast.Node) bool {
			ce, ok := x.(*ast.CallExpr)
			if !ok {
				return true
			}
			id, ok := ce.Fun.(*ast.Ident)
			if !ok || id.Name != "panic" {
				return true
			}
			if _, isB := p.TypesInfo.Uses[id].(*types.Builtin); !isB {
				return true
			}
			n++
			t := p.TypesInfo.TypeOf(ce.Args[0])
			isErr := t != nil && types.Implements(t, errT)
			// re-raise of a recovered value is fine
			if objOfIdent(p, ce.Args[0]) != nil && funcDeclName(fd) == "Tree.recover" {
				isErr = true
			}
			r.Check(isErr, "R07.3", fmt.Sprintf("panic in %s: %s", funcDeclName(fd), types.ExprString(ce.Args[0])), ce.Pos(), "value implements error",
				"panic value of type "+fmt.Sprint(t)+" does not implement error: Tree.recover's e.(error) assertion would itself panic and Parse would crash instead of returning an error")
			return true
		})
	}
	if n == 0 {
		r.Fail("R07.3", "explicit panics", token.NoPos, "none found in the cone (the error exit mechanism is gone)")
	}
	// located errors: Tree.errorf formats name, line, column; stmt()/parse() panics use ErrorContext
	ef := w.Method("parse", "Tree", "errorf")
	efd, _ := w.FuncDecl(ef)
	pn := w.Field("parse", "Tree", "ParseName")
	usesName, usesLine := false, false
	ast.Inspect(efd.Body, func(x ast.Node) bool {
		if fieldOfSel(p, asExpr(x)) == pn {
			usesName = true
		}
		if ce, ok := x.(*ast.CallExpr); ok {
			if c := calleeOf(p, ce); c != nil && nm(c) == "lineNumber" {
				usesLine = true
			}
		}
		return true
	})
	r.Check(usesName && usesLine, "R07.3", "Tree.errorf locates the error", efd.Pos(), "message carries ParseName, line and column", "parser errors no longer name the input and the line")
	for _, m := range []string{"stmt", "parse"} {
		f := w.Method("parse", "Tree", m)
		fd, _ := w.FuncDecl(f)
		ok := true
		k := 0
		// the function and the helpers of the package it hands part of its work to
		for _, cfd := range localHelperDecls(w, p, f) {
			fd := cfd
			ast.Inspect(fd.Body, func(x ast.Node) bool {
				ce, isC := x.(*ast.CallExpr)
				if !isC {
					return true
				}
				if id, isI := ce.Fun.(*ast.Ident); !isI || id.Name != "panic" {
					return true
				}
				k++
				// panic(fmt.Errorf("%s: %s", s, e)) where s comes from ErrorContext*/ErrorContextPosition
				inner, isE := ce.Args[0].(*ast.CallExpr)
				if !isE || len(inner.Args) < 2 {
					ok = false
					return true
				}
				locObj := objOfIdent(p, inner.Args[1])
				fromCtx := false
				ast.Inspect(fd.Body, func(y ast.Node) bool {
					if as, isA := y.(*ast.AssignStmt); isA && len(as.Rhs) == 1 && objOfIdent(p, as.Lhs[0]) == locObj {
						if c2, isC2 := as.Rhs[0].(*ast.CallExpr); isC2 {
							if c := calleeOf(p, c2); c != nil && strings.HasPrefix(nm(c), "ErrorContext") {
								fromCtx = true
							}
						}
					}
					return true
				})
				if !fromCtx {
					ok = false
				}
				return true
			})
		}
		r.Check(ok && k > 0, "R07.3", "Tree."+m+" panics carry the statement's location", fd.Pos(), "prefixed with ErrorContext()", "a semantic error raised here is not prefixed with the statement's file:line:column")
	}
}

func c07Root(w *World, r *Report) {
	p := w.Pkg("parse")
	parse := w.Method("parse", "Tree", "Parse")
	pfd, _ := w.FuncDecl(parse)
	inner := w.Method("parse", "Tree", "parse")
	root := w.Field("parse", "Tree", "Root")
	// success return preceded by t.parse()
	okOrder := false
	if pf, inf := w.SSAFunc(parse), w.SSAFunc(inner); pf != nil && inf != nil {
		// a call that runs t.parse(): the call itself, or a helper of the package on every way through which it is made
		runsParse := func(c *ssa.Call) bool {
			g := c.Call.StaticCallee()
			if g == inf {
				return true
			}
			if g == nil || g.Blocks == nil || g.Pkg != pf.Pkg {
				return false
			}
			for _, gb := range g.Blocks {
				for _, gin := range gb.Instrs {
					if gc, ok := gin.(*ssa.Call); ok && gc.Call.StaticCallee() == inf {
						all := true
						for _, rb := range g.Blocks {
							if _, isRet := rb.Instrs[len(rb.Instrs)-1].(*ssa.Return); isRet && !(gb == rb || gb.Dominates(rb)) {
								all = false
							}
						}
						if all {
							return true
						}
					}
				}
			}
			return false
		}
		var parsed []*ssa.BasicBlock
		for _, b := range pf.Blocks {
			for _, in := range b.Instrs {
				if c, ok := in.(*ssa.Call); ok && runsParse(c) {
					parsed = append(parsed, b)
				}
			}
		}
		nSucc := 0
		okOrder = len(parsed) > 0
		for _, b := range pf.Blocks {
			ret, ok := b.Instrs[len(b.Instrs)-1].(*ssa.Return)
			if !ok || len(ret.Results) != 2 || b == pf.Recover {
				continue
			}
			if !isNilConst(unspill(ret.Results[1])) {
				continue
			}
			nSucc++
			dom := false
			for _, pb := range parsed {
				dom = dom || pb == b || pb.Dominates(b)
			}
			okOrder = okOrder && dom
		}
		okOrder = okOrder && nSucc > 0
	}
	r.Check(okOrder, "R07.6", "Tree.Parse success return", pfd.Pos(), "return t, nil only after t.parse()", "Parse can return a nil error without having parsed")
	ifd, _ := w.FuncDecl(inner)
	stmt := w.Method("parse", "Tree", "stmt")
	okRoot := false
	for _, a := range assignsToField(p, ifd.Body, root) {
		if as, ok := a.(*ast.AssignStmt); ok && len(as.Rhs) == 1 {
			if ce, ok := as.Rhs[0].(*ast.CallExpr); ok && calleeOf(p, ce) == stmt {
				okRoot = true
			}
		}
	}
	r.Check(okRoot, "R07.6", "Tree.parse sets Root", ifd.Pos(), "t.Root = t.stmt(…)", "the root statement is not stored in Tree.Root")
	sfd, _ := w.FuncDecl(stmt)
	newNode := w.Method("parse", "Tree", "NewNode")
	okRet := false
	var nObj types.Object
	ast.Inspect(sfd.Body, func(x ast.Node) bool {
		if as, ok := x.(*ast.AssignStmt); ok && len(as.Rhs) == 1 {
			if ce, ok := as.Rhs[0].(*ast.CallExpr); ok && calleeOf(p, ce) == newNode {
				nObj = objOfIdent(p, as.Lhs[0])
			}
		}
		return true
	})
	rets := returnsIn(sfd.Body)
	if len(rets) == 1 && nObj != nil && objOfIdent(p, rets[0].Results[0]) == nObj {
		okRet = true
	}
	r.Check(okRet, "R07.6", "Tree.stmt returns the node it built", sfd.Pos(), "return n (from NewNode)", "stmt may return something other than the freshly built node")
}

// scanPanicObligationsOpt is scanPanicObligations with explicit panics optional.
func scanPanicObligationsOpt(w *World, r *Report, rule string, cone map[*types.Func]*ast.FuncDecl, reviewed []reviewedEntry, withLits, skipExplicit bool, where, consequence string) {
	skipExplicitPanics = skipExplicit
	defer func() { skipExplicitPanics = false }()
	scanPanicObligations(w, r, rule, cone, reviewed, withLits, where, consequence)
}

var skipExplicitPanics bool

var _ = packages.NeedName

// c07WordStops: the runes at which lexString's scan of an unquoted word stops
// (peek-then-read form: the values of the rune peeked for which next() is not
// reached; read-then-give-back form: the values of the rune read for which
// backup() follows).  ok is false when neither form is recognised.
func c07WordStops(w *World) (stops ISet, ok bool) {
	word := w.SSAFunc(w.Func("parse", "lexString"))
	next := w.SSAFunc(w.Method("parse", "lexer", "next"))
	peek := w.SSAFunc(w.Method("parse", "lexer", "peek"))
	backup := w.SSAFunc(w.Method("parse", "lexer", "backup"))
	if word == nil || next == nil {
		return nil, false
	}
	sym := NewSym(w)
	sym.Expand = true
	var consume func(f *ssa.Function, ctx *symCtx, depth int) (*pcF, []string)
	consume = func(f *ssa.Function, ctx *symCtx, depth int) (*pcF, []string) {
		out := pcZ
		var subj []string
		for _, b := range f.Blocks {
			for _, in := range b.Instrs {
				c, isC := in.(*ssa.Call)
				if !isC {
					continue
				}
				g := c.Call.StaticCallee()
				switch {
				case g == next:
					out = pcOrF(out, sym.PathCond(f.Blocks[0], b, ctx))
				case g == peek && peek != nil:
					subj = append(subj, sym.Key(c, ctx))
				case g != nil && depth < 2 && g.Blocks != nil && g != f && strings.HasPrefix(pkgPathOf(g), modPath) && calleesDeep(g, 2)[next]:
					sub, ss := consume(g, &symCtx{call: c, parent: ctx}, depth+1)
					out = pcOrF(out, pcAndF(sym.PathCond(f.Blocks[0], b, ctx), sub))
					subj = append(subj, ss...)
				}
			}
		}
		return out, subj
	}
	reaches, subjects := consume(word, nil, 0)
	for _, sk := range subjects {
		if stuck, decided := pcValuesWhen(pcNotF(reaches), sk); decided {
			return stuck, true
		}
	}
	for _, b := range word.Blocks {
		for _, in := range b.Instrs {
			c, isC := in.(*ssa.Call)
			if !isC || c.Call.StaticCallee() != next || backup == nil {
				continue
			}
			if always, decided := pcEvalFree(sym.PathCond(word.Blocks[0], b, nil), func(*pcAtom) (bool, bool) { return false, false }); !decided || !always {
				continue
			}
			unread := pcZ
			for _, bb := range word.Blocks {
				for _, in2 := range bb.Instrs {
					if bc, isB := in2.(*ssa.Call); isB && bc.Call.StaticCallee() == backup {
						if bb == b {
							unread = pcT
						} else {
							unread = pcOrF(unread, sym.PathCond(b, bb, nil))
						}
					}
				}
			}
			if stuck, decided := pcValuesWhen(unread, sym.Key(c, nil)); decided {
				return stuck, true
			}
		}
	}
	return nil, false
}

// localHelperDecls: the declaration of f and of the unexported plain functions
// and methods of its package that it calls directly and that nothing else in
// the package calls (work moved out of f).
func localHelperDecls(w *World, p *packages.Package, f *types.Func) []*ast.FuncDecl {
	fd, _ := w.FuncDecl(f)
	out := []*ast.FuncDecl{fd}
	if fd == nil {
		return nil
	}
	for _, ce := range callsIn(p, fd.Body) {
		g := calleeOf(p, ce)
		if g == nil || g.Pkg() != f.Pkg() || g.Exported() || g == f {
			continue
		}
		if sig, ok := g.Type().(*types.Signature); ok && sig.Recv() != nil && types.IsInterface(sig.Recv().Type()) {
			continue // a method of an interface has no body here
		}
		gfd, gp := w.FuncDecl(g)
		if gfd == nil || gp != p {
			continue
		}
		users := 0
		for _, fd2 := range funcDecls(p) {
			if fd2 != gfd && fd2.Body != nil && len(allCallsTo(p, fd2.Body, g)) > 0 {
				users++
			}
		}
		if users == 1 {
			dup := false
			for _, o := range out {
				dup = dup || o == gfd
			}
			if !dup {
				out = append(out, gfd)
			}
		}
	}
	return out
}

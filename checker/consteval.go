package main

import (
	"fmt"
	"go/ast"
	"go/constant"
	"go/types"

	"golang.org/x/tools/go/packages"
)

// E2: evaluation of composite literals whose keys and leaves are constants.

type LitKV struct {
	Key constant.Value
	Val *LitVal
	Pos ast.Node
}

type LitVal struct {
	Const constant.Value // leaf
	KVs   []LitKV        // keyed composite
	Elems []*LitVal      // positional composite
	Node  ast.Node
	Type  types.Type
}

func evalLit(p *packages.Package, e ast.Expr) *LitVal {
	e = ast.Unparen(e)
	if v := ConstOf(p, e); v != nil {
		return &LitVal{Const: v, Node: e}
	}
	switch x := e.(type) {
	case *ast.CompositeLit:
		lv := &LitVal{Node: x, Type: p.TypesInfo.TypeOf(x)}
		for _, el := range x.Elts {
			if kv, ok := el.(*ast.KeyValueExpr); ok {
				k := ConstOf(p, kv.Key)
				if k == nil {
					// struct field key
					if id, ok := kv.Key.(*ast.Ident); ok {
						k = constant.MakeString(id.Name)
					} else {
						panic(undecided{"non-constant key in table literal: " + types.ExprString(kv.Key)})
					}
				}
				lv.KVs = append(lv.KVs, LitKV{Key: k, Val: evalLit(p, kv.Value), Pos: kv})
			} else {
				lv.Elems = append(lv.Elems, evalLit(p, el))
			}
		}
		return lv
	case *ast.UnaryExpr:
		return evalLit(p, x.X)
	}
	return &LitVal{Node: e} // opaque leaf
}

// nodeTypeNames evaluates parse.nodeNames into value→keyword and back.
func nodeTypeNames(w *World) (map[int64]string, map[string][]int64) {
	v := w.Var("parse", "nodeNames")
	init, p := w.VarInit(v)
	lv := evalLit(p, init)
	if len(lv.KVs) == 0 {
		panic(undecided{"parse.nodeNames is not a keyed array literal"})
	}
	byVal := map[int64]string{}
	byName := map[string][]int64{}
	for _, kv := range lv.KVs {
		k, ok := constant.Int64Val(kv.Key)
		if !ok || kv.Val.Const == nil || kv.Val.Const.Kind() != constant.String {
			panic(undecided{"parse.nodeNames entry is not const→string"})
		}
		s := constant.StringVal(kv.Val.Const)
		byVal[k] = s
		byName[s] = append(byName[s], k)
	}
	return byVal, byName
}

// nodeTypeConstNames maps NodeType constant values to their Go identifiers.
func nodeTypeConstNames(w *World) map[int64]string {
	p := w.Pkg("parse")
	nt := scopeLookup(p.Types.Scope(), "NodeType")
	if nt == nil {
		panic(undecided{"parse.NodeType"})
	}
	out := map[int64]string{}
	for _, n := range p.Types.Scope().Names() {
		if c, ok := scopeLookup(p.Types.Scope(), n).(*types.Const); ok && types.Identical(c.Type(), nt.Type()) {
			v, _ := constant.Int64Val(c.Val())
			out[v] = n
		}
	}
	return out
}

type Card struct{ Min, Max string }

func (c Card) String() string { return c.Min + ".." + c.Max }

// cardinalityTable evaluates parse.cardinalities into keyword space.
func cardinalityTable(w *World) (map[string]map[string]Card, map[string]ast.Node) {
	v := w.Var("parse", "cardinalities")
	init, p := w.VarInit(v)
	lv := evalLit(p, init)
	names, _ := nodeTypeNames(w)
	out := map[string]map[string]Card{}
	pos := map[string]ast.Node{}
	for _, row := range lv.KVs {
		pk, _ := constant.Int64Val(row.Key)
		pn, ok := names[pk]
		if !ok {
			panic(undecided{fmt.Sprintf("cardinalities row key %d has no keyword", pk)})
		}
		if _, dup := out[pn]; dup {
			panic(undecided{"duplicate cardinalities row " + pn})
		}
		out[pn] = map[string]Card{}
		pos[pn] = row.Pos
		for _, cell := range row.Val.KVs {
			ck, _ := constant.Int64Val(cell.Key)
			cn, ok := names[ck]
			if !ok {
				panic(undecided{fmt.Sprintf("cardinalities cell key %d has no keyword", ck)})
			}
			var c Card
			vals := cell.Val.Elems
			if len(vals) == 0 && len(cell.Val.KVs) == 2 {
				for _, kv := range cell.Val.KVs {
					vals = append(vals, kv.Val)
				}
			}
			if len(vals) != 2 || vals[0].Const == nil || vals[1].Const == nil {
				panic(undecided{"cardinality cell " + pn + "/" + cn + " is not {start,end}"})
			}
			a, _ := constant.Int64Val(vals[0].Const)
			b, _ := constant.Int64Val(vals[1].Const)
			c = Card{string(rune(a)), string(rune(b))}
			out[pn][cn] = c
			pos[pn+"/"+cn] = cell.Pos
		}
	}
	return out, pos
}

#!/usr/bin/env python3
"""Regenerates MANIFEST.json from the table below (keeps it schema-valid)."""
import json, sys

TRUST = ("trusted base: go/types + go/ssa (x/tools v0.50.0), goyacc v0.29.0's LALR construction, "
         "the hand-transcribed RFC 6020 / XPath 1.0 / XML-Names tables in checker/spec_*.go, the checker itself; "
         "interface calls that leave the module (Entry, plugins) are opaque")

CHECKS = {
    "C19": dict(
        cat="other",
        text=("Decides structural necessary conditions of total decoding and faithful encoding, not round-trip equality: in the schema-directed conversion and the JSON reader every index/slice expression and unchecked assertion is discharged by a guard that must still be present or a reviewed entry; no call's error is discarded with _ while its value is indexed or dereferenced; a JSON number is never converted float->integer before the schema type sees it; a scalar is stored only if sn.Validate accepted that very string, or it is the identityref simple form obtained by requiring and stripping exactly '<module>:' and validating the remainder again; the JSON writer sends every string-like value through json.Marshal with no hand-written quoting, and in every arm of the child encoder the brackets written are balanced on every path (path-enumerating balance count)."),
        ref="DESIGN.md §4 C19",
        technique="cone-wide index obligations with guard facts, dropped-error-then-use rule, conversion-kind rule, value-provenance rule on the validated/stored string, escape-discipline and bracket-pairing (acquire/release on every path) rules on the writer",
        note="Not decided: encode/decode round-trip equality, the XML path beyond the shared conversion, numbers beyond 2^53 (encoding/json decodes into float64). " + TRUST,
    ),
    "C18": dict(
        cat="other",
        text=("Thin, and stated as such: decides mechanisms that exact structural validation and default decoration depend on — the plain data node's fields have no writer but the constructor; the decorator stores nothing into, and never appends to, the child slice it receives, allocates a result of the same length and wraps child i at index i; a default is created only after a seen-name test skipped explicit children; leaf.HasDefault goes through leaf.Default, which suppresses a type default on a mandatory leaf; cardinalityInRange compares len < min and len > max with all-ones meaning unbounded; the table grouping list entries by unique-key is allocated inside the loop over the unique statements (SSA block-in-loop test). The mandatory/unique semantics on concrete trees are not decided."),
        ref="DESIGN.md §4 C18",
        technique="who-writes sets, SSA store/append rooting on a parameter, statement-order rule, comparison extraction, allocation-site-in-loop test",
        note="Not decided: mandatory/unique through presence chains and choices, idempotence as an equality over trees. " + TRUST,
    ),
    "C17": dict(
        cat="other",
        text=("Decides that the schema walk cannot accept without checking: every concrete node kind declares its own Validate (method-set query; none inherits the accept-everything (*node).Validate); in each of tree, container, list, list entry, choice, case, leaf and leaf-list the method starts with the empty-path arm, which returns nil only under the condition the property states for that kind (presence / empty type / incomplete paths allowed / never for choice and case), and with tokens remaining it either rejects or ends in a delegating call (child.Validate(ctx, path, p[1:]) or the type's Validate on the value) with no other nil exit; leaf and leaf-list reject tokens after the value; the list's key leaf validates the token after the list name unconditionally and its error is returned; every error constructor renders the walked path with pathutil.Pathstr."),
        ref="DESIGN.md §4 C17",
        technique="method-set query + must-pass-through (delegate-or-reject) shape rule per kind, guard extraction on the empty-path arm, call-argument provenance in the error constructors",
        note="Not decided: which error a concrete path gets; multi-part keys (first key only, documented TODO); vendor opd kinds. " + TRUST,
    ),
    "C16": dict(
        cat="other",
        text=("Decides the table and shape facts value validation rests on: the signed/unsigned bound tables hold the exact two's-complement bounds for every width (constant arithmetic) and values are parsed base 10 with the type's own width; the string length restriction is applied to a character count, not len(s); decimal64 range boundaries and the tested value are not float64 (a recorded finding today); patterns are compiled as ^(pattern)$; boolean accepts exactly true|false, empty rejects any value, enumeration/identityref accept iff a declared .Val equals the value, union iff some member accepts, each range/length part iff start <= v <= end; every rejection constructor in the Validate methods receives the path; the decimal64 lexical check has no success exit before the four exact comparisons with the 64-bit limits; identityValues lists every derived identity unconditionally."),
        ref="DESIGN.md §4 C16",
        technique="constant-table evaluation against computed bounds, argument-provenance and boolean-shape rules on the Validate methods, exit-structure rule on the decimal64 lexical check",
        note="Not decided: pattern semantics (XSD vs RE2), decimal64 values between doubles (recorded finding R16.3). " + TRUST,
    ),
    "C14": dict(
        cat="other",
        text=("Decides the structural rules behind config/status/if-feature/deviations: the properties each deviate kind accepts equal RFC 6020 7.18.3.2; the status constants are ordered and getStatus / assertReferenceStatus reject exactly 'own < inherited' and 'source < destination within one module'; getConfig is evaluated as a truth table over (inherited, own) — rejects exactly (false, true), returns own if present else inherited; IgnoreNode ignores not-supported nodes and any node with a disabled if-feature; isFeatureValid is the conjunction, accumulated over every dependency, of the feature's own enablement, and if-feature reads the verified value; BuildNode applies overrideInherited first and hands its result to every kind-specific builder; deviate delete removes the statement matched by type and argument, replace requires existence and substitutes by type, add appends."),
        ref="DESIGN.md §4 C14",
        technique="switch case-set comparison with RFC 6020, truth-table evaluation of small boolean guards, accumulator-shape and value-provenance rules on the type-checked AST",
        note="Not decided: equivalence of deviations with a source edit on whole trees; which features a caller enables. " + TRUST,
    ),
    "C20": dict(
        cat="other",
        text=("Decides that filtering is applied uniformly and purely: BuildNode has exactly two callers, and in both every node it returns reaches the append only through the test `c.filter != nil && !c.filter(node) -> continue` with no other conjunct (so no node class, e.g. list keys, can bypass it); IsConfig/IsState/Include/Exclude/IncludeState have the documented boolean structure (IsState = not config and not opd; Include a disjunction, Exclude its negation, nil members skipped); the predicates and combinator closures write nothing through the node they inspect and no global (SSA write/escape summaries over all in-module implementations of the node interface); the default-case check is skipped exactly when a filter is set and rejects the choice itself."),
        ref="DESIGN.md §4 C20",
        technique="who-calls + must-pass-through shape rule, boolean-structure extraction, SSA purity (write/escape) analysis of the predicates",
        note="Not decided: whole-tree equality with the pruned unfiltered compile; caller-supplied filters. " + TRUST,
    ),
    "C13": dict(
        cat="other",
        text=("Decides the structural pieces of type narrowing and default inheritance: the restriction-kind table equals RFC 6020 section 9 per base type and validateRestrictions rejects kinds outside the row; getDefault is 'own default if given, else the base type's' and BuildBaseType hands the typedef's default inward (nearest definition wins); the four range-boundary comparator implementations agree on their operator and operand order (< , > , lower+1 == higher; false for decimal64); the rejecting comparisons of validateRangeBoundaries, createRangeBdry and getLength — rendered independently of local names, by the provenance of each operand — are the expected ones, and the subset-of-a-base-part test of getLength reads the resolved bounds only; validateDefault is called unconditionally before the single return of makeBuiltinType and refineType and uses the type's own Validate."),
        ref="DESIGN.md §4 C13",
        technique="table comparison with RFC 6020 section 9, sibling-implementation agreement, provenance-normalised guard-condition extraction (which comparison on which operands guards an error exit), must-call rule",
        note="Not decided: subset checking on concrete multi-part ranges (value level), pattern semantics. " + TRUST,
    ),
    "C12": dict(
        cat="other",
        text=("Decides structural steps of uses/refine/augment expansion, not schema equivalence: no sibling-uniqueness error of the schema tree's add* methods is discarded at any call site; a node's defining tree has the constructor as its only writer, Clone keeps it, sets the using tree from its argument and re-homes every descendant, the namespace/module accessors consult the using tree first, and the module handed to Clone is chosen from the using side, never by looking at the grouping; inheritCommonProperties copies exactly when/if-feature/status and every node applyUsesToNode clones or applyAugment moves passes through it first; the refinable-statement and augmentable-target sets equal RFC 6020 7.12.2 / 7.15."),
        ref="DESIGN.md §4 C12",
        technique="error-discipline rule over call sites, who-writes sets, value-provenance and statement-order rules on the type-checked AST, switch case-set comparison with RFC 6020",
        note="Not decided: equivalence with the inlined module. Known finding: NewModelSet drops addChoice's error. " + TRUST,
    ),
    "C15": dict(
        cat="other",
        text=("Decides that embedded XPath is always compiled and resolved in the right scope, structurally: the builder of every node kind that the substatement table (C09) allows to carry when / must calls BuildWhens / BuildMusts, the leafref builder reaches NewLeafrefMachine, and the error of every machine constructor called in compile/ reaches Compiler.error (auxiliary path-evaluation machines: saveWarning); in each prefix-mapping closure the receiver of YangPrefixToNamespace is the node whose text is compiled; GetModuleByPrefix reads only the defining tree, an unknown prefix is an error unless unknowns are skipped, and only the empty prefix takes the context-dependent namespace; in both lexers a mapping error becomes the lexer error and the ERR token."),
        ref="DESIGN.md §4 C15",
        technique="table-driven must-call rule (kinds from the C09 table), error-flow rule on constructor call sites, receiver-identity rule inside closures, field-read set of GetModuleByPrefix",
        note="Not decided: semantic validity of expressions; the documented silent fallback from the extended must. " + TRUST,
    ),
    "C11": dict(
        cat="other",
        text=("Decides the structural necessary conditions of total and deterministic compilation: every iteration over a Go map in compile/, parse/, schema/ and data/ is either order-insensitive by shape (map copies, collect-then-sort) or a reviewed site with the reason its order is unobservable, calls no order-sensitive phase and gains no new outer-slice append; the order-sensitive phases (grouping/augment expansion, deviations, module build) are called only inside loops over the topologically sorted module names, and those names are the sorter's output; the reference-following recursions (features, groupings, typedef chain) carry a path set that is tested, inserted before and removed after the descent, and the grouping check enumerates uses transitively as the expansion does; every explicit panic in the compiler carries an error and every phase compileInternal calls that can raise one defers Compiler.recover."),
        ref="DESIGN.md §4 C11",
        technique="map-iteration-order rule with a reviewed site table, loop-context (who-calls-under-which-range) rule, recursion-guard (path set) shape rule, panic-value typing, recover coverage over static call cones",
        note="Not decided: runtime errors the compiler re-raises, termination of structural recursion, and that consumers treat the reviewed set-valued lists as sets. " + TRUST,
    ),
    "C08": dict(
        cat="other",
        text=("Thin, and stated as such: decides the constants and dispatch that RFC 6020 6.1.3 decoding rests on — the escape table values, the shared tab width of 8 used by both the quote-column computation and the indentation stripper, that the quote column is counted per character and not from byte lengths, that substitution/stripping is applied iff the closing quote is a double quote and unquoted/single-quoted text is verbatim, that pieces are joined piece + rest and a continuation needs '+' then a quote, that comment scanners are entered only between tokens, and the flag discipline of the escape-substitution loop (the 'previous backslash pair' flag is false after every non-empty piece). The arithmetic over concrete layouts is not decided."),
        ref="DESIGN.md §4 C08",
        technique="constant/table extraction and type-resolved AST shape rules (dispatch conditions, who-references the comment scanners, unit of the column count, boolean flag discipline)",
        note="Not decided: the decoded text for a given source form and layout (runtime string computation). " + TRUST,
    ),
    "C10": dict(
        cat="other",
        text=("Thin, and stated as such: decides the structural channel from tokens to the tree — each statement is appended to its parent's child list exactly once in loop (source) order and handed unchanged to the node constructor; node.children has exactly the constructor and the documented tree-editing methods as writers; keyword text and position of a node are the keyword token's; raw tokens (separators included) are read only by the *NonSpace helpers and comment text is discarded, never emitted; a comment scanner steps over its opener before searching the terminator; the line/column computation treats a line break at byte 0 as found. Equality of trees across re-layouts is not decided."),
        ref="DESIGN.md §4 C10",
        technique="type-resolved AST rules: who-writes / who-calls sets, value provenance of node fields, statement-order rules",
        note="Not decided: tree equality over all trivia insertions and equivalent quotings (a relation over runtime inputs). " + TRUST,
    ),
    "C07": dict(
        cat="other",
        text=("Decides the structural necessary conditions of 'parsing is total and leaves nothing running': every character loop of the YANG lexer leaves at end of input (the loop predicate is evaluated exactly, as an interval set, at the eof sentinel) and consumes a rune per iteration; the single goroutine the parser starts closes its channel when its state machine ends and the parser's recover handler drains that channel before dropping the lexer; Parse defers the handler; every explicit panic reachable from Parse carries an error value (the handler asserts e.(error)) and is located (name, line, column, or the statement's ErrorContext); every index/slice expression and unchecked type assertion in the static call cone of Parse and of the lexer goroutine (state functions followed as values) is discharged by a guard that must still be present or by a reviewed entry; the success return follows parse(), which sets Root from the node stmt() built."),
        ref="DESIGN.md §4 C07",
        technique="loop-exit rule with interval-set evaluation of the loop predicate at eof, producer/consumer (close + drain) rule, panic-value typing over the static cone, cone-wide index/slice obligations with guard facts and a reviewed table",
        note="Not decided: nil dereferences, recursion depth, and index safety beyond recognised guards/reviewed entries (no general range analysis). " + TRUST,
    ),
    "C02": dict(
        cat="other",
        text=("Decides the structural facts that make a location path designate the right node in the fork's path engine: the step instruction reads only the local part of a lexed name (a prefix cannot change the node); only the '/' arm of CodePathOper marks a path root-based, it is emitted only by the Root production and Root only begins paths; current() and context-relative evaluation start from a fresh empty path and operand paths are deep copies; each name step and each '..' emits exactly one element, '.' none, and the step list is left-recursive (source order); PredicatesEnd sorts the collected key names before attaching them to the last element, and in [key = operand] the key is the left and the value the right operand's string value; EvalLocPathInternal navigates the path it popped, reads the entry Navigate returned and pushes exactly that value; PREDSTART/PREDEND are balanced and PREDEND resets the per-predicate toggle, whose tests in the step instruction and in EvalLocPath are complementary."),
        ref="DESIGN.md §4 C02",
        technique="grammar-action queries + type-resolved AST rules on instruction closures (field-read sets, call order, bracket pairing); shared-state leaks between runs are covered by C06's write/escape analysis",
        note="Not decided: the behaviour of the predicate counters over whole instruction sequences, nested predicate operands, what a data tree answers; sdcpb path methods are trusted. " + TRUST,
    ),
    "C06": dict(
        cat="other",
        text=("Establishes from go/ssa that concurrent runs and compilations share no mutable state, which is the premise of the property: (1) Machine, Inst and Symbol fields and []Inst elements are stored only on fresh values inside constructors; (2) for each of the function values that can reach Inst.fn (found at every CodeFn/newInst call site, closures, bound methods and phi-merged closures included) a transitive write/escape summary shows that nothing reachable from a captured variable or bound receiver is written, handed to a mutating or opaque callee, or stored elsewhere, and no package variable is written without the lock; (3) every package-level variable of the xpath packages is read-only after init or is accessed only with mu held in the required mode (exclusive for writes, so a Mutex->RWMutex/RLock weakening is caught); (4) each generated parser allocates its state per call; (5) context constructors share only the program with the machine. Schedules themselves are not explored."),
        ref="DESIGN.md §4 C06",
        technique="SSA write-set/escape summaries (interprocedural, per parameter / free variable), lock-mode (lockset) analysis of package variables, who-may-store on frozen types",
        note="Sound for static callees and in-module interface implementations; external calls are treated as mutating unless in a small pure list; Entry implementations, plugins and concurrent use of exported configuration setters are outside. " + TRUST,
    ),
    "C05": dict(
        cat="other",
        text=("Decides the structural necessary conditions of totality and faithful failure reporting on the XPath side: instructions are only ever executed inside context.Run under a deferred recover that turns a panic into an error result; once an instruction stored an error nothing can replace it (loop exit or guarded store); every error-returning data-tree callback is tested and its error stored or raised before the value is used; accessors report the run error first; in the call cone of the five machine constructors (generated parser excluded) every index, slice, unchecked type assertion and explicit panic is discharged by a guard that must still be present or by a reviewed entry; the compile error is built with constant formats from the expression and a split of it; every lexer loop consumes a rune per iteration and leaves at EOF."),
        ref="DESIGN.md §4 C05",
        technique="who-may-call on the Inst.fn field, AST error-discipline and dominance rules, call-cone panic obligations with guard-fact checks and a reviewed table, loop-exit rule on the lexers",
        note="Not decided: the goyacc driver (trusted), nil dereferences, the stack discipline that guarantees a value for well-formed programs, Entry implementations. " + TRUST,
    ),
    "C01": dict(
        cat="other",
        text=("Decides per-instruction and per-conversion necessary conditions of XPath 1.0 scalar semantics from the source: each operator production is traced through its grammar action to the builder method, whose SSA/AST must apply the XPath operator to (left,right) in stack order; the six comparison comparators are evaluated as truth tables over the finite set of orderings of two doubles {<,=,>,NaN left,NaN right,both}; the operand type-selection order of = and != and the numeric rule for relational operators, the empty node-set rule and existential node-set comparison; boolean/number/string conversion special cases (incl. NaN, signed zero, infinities); the function table against the section 4 signatures with three-way agreement table/spec/body and the defining stdlib operation per function; and that no over-accepting Go API (ParseFloat, %v, byte lengths) sits on a conversion path. It does not compute values."),
        ref="DESIGN.md §4 C01",
        technique="grammar-action tracing + SSA operand-order matching + finite-domain (ordering) truth-table evaluation of comparator closures + table/signature comparison + API-language call-site rule",
        note="Not decided: numeric results beyond ordering/class level, string results on particular strings, data-tree supplied values, nesting. " + TRUST,
    ),
    "C09": dict(
        cat="other",
        text=("Exhaustive comparison of the tables the accepted statement language is made of with RFC 6020: every cell of the substatement table for every RFC parent and child keyword (presence, min, max), the keyword table, the statement-to-argument-class dispatch and the closed word sets of status/ordered-by/deviate/yang-version, the section sets and rank logic of checkModule, strict revision ordering, the three tests of checkCardinality and its skip set, that stmt() checks each node; plus two whole-program rules: no argument parser (or anything it calls) uses a stdlib recogniser accepting a strict superset of the ABNF, and no map update can reach the shared table. Tables are finite, so the comparison covers every (parent, child, multiplicity) triple, which no sampled test does."),
        ref="DESIGN.md §4 C09",
        technique="constant evaluation of table literals and switch case sets from the type-checked AST, compared with transcribed RFC 6020 tables; SSA alias-taint query for table writers; call-closure API-language rule",
        note="Does not decide semantic rules outside the tables/ABNF, nor the uri/pattern/range sub-languages. " + TRUST,
    ),
    "C04": dict(
        cat="other",
        text=("Decides the finite table/set agreements that the accepted language rests on, exhaustively over each table: the XPath 3.7 disambiguation set, operator and node-type name sets, the XML-Names and RFC 6020 identifier character classes (interval-set evaluation of the predicates), the three token maps and their inverses, per-production arity constants, that every production consuming an unsupported token reports it, that the parse-error latch is monotone and CreateProgram honours it, that every ERR exit records a lexer error, that the invalid-UTF-8 marker cannot enter a token, empty-input rejection, and conflict-free regenerable grammars. It does not decide language equivalence as a whole."),
        ref="DESIGN.md §4 C04",
        technique="table/set extraction from the type-checked AST + interval-set abstract evaluation of character-class predicates + grammar production queries",
        note="Structural necessary conditions only; whole-language equivalence of lexer+LALR grammar with the supported subset is not decided. " + TRUST,
    ),
    "C03": dict(
        cat="proof",
        text=("Proof by discharged premises on the current files: the committed parser equals goyacc(xpath.y); the grammar is conflict-free "
              "and stays so with every %left/%prec removed (identical tables); the operator non-terminals form the XPath 1.0 precedence chain "
              "with left recursion; parentheses and unit productions emit nothing; each operator production emits exactly one instruction after "
              "its operands; operator spellings reach the token of their level; whitespace is skipped statelessly. Together these imply that an "
              "expression and its fully parenthesised / re-spaced form compile to the same instruction list. Every premise is an obligation "
              "recomputed from /repo on each run."),
        ref="DESIGN.md §4 C03",
        technique="grammar analysis (own yacc reader + goyacc regeneration and conflict report), type-resolved action extraction, interval-set evaluation of lexer predicates",
        note="Proves program equality; equality of results follows because both variants are the same instruction list. " + TRUST,
    ),
}

# clauses added after the first catalogue (rule ids as in DESIGN.md §4); appended to the text of the claim
LATER = {
 "C09": "Also: node.check runs the section and revision checks for modules and submodules alike (R09.13); empty steps of a schema node identifier are kept to be refused (R09.14); the section function and the per-cell cardinality test are followed into helpers (R09.5, R09.7). Round 7: every statement Tree.stmt returns has passed check() (R09.15). Rounds 8–10: the remembered revision date may live in a field of a small state object updated by one function (second reading of R09.6/R09.12). Seed round 8: the column rule of C10 also here (R09.16); a hand-written digit reader tests both bounds (R09.17).",
 "C01": "Also: strings become numbers through the floating-point reader alone (R01.9); substring() positions count characters (R01.8). Round 6: a leaf-list is compared member by member through the type-directed comparison (R01.10). Seed round 8: no comparison instruction is computed from another (R01.12); no rounding by floor(x + 0.5) (R01.11, after the substring() repair).",
 "C02": "Also: every question put to the data tree is about a path taken off the path stack (R02.8); a predicate key is recorded whatever the two strings are (R02.9). Round 6: key predicate vs leaf-list test is decided by the left operand alone (R02.10); numbers are written with the float formatter only (R02.11); key attachment and sorting in PredicatesEnd are read on SSA (R02.4). Round 7: no pool hands a path stack to the next run (R02.12); the keys of a step are attached once, after its whole predicate set — a rule on the grammar (R02.13). Seed round 8: PushElem adds its element on every path (R02.14).",
 "C03": "Also: the characters a number token collects include no first letter of an operator name (R03.10). Round 7: the expression lexer adds no state to the common lexer (R03.11).",
 "C04": "Also: the number lexer uses no integer parser (R04.23); the oracle grammar is transcribed from XPath 1.0 only (the '()' production the code once had was a defect, repaired). Round 6: startsWithXML compares the first three characters (R04.24); after '.', a number is read for each of the ten digits (R04.25). Round 7: function-class tokens only before '(' (R04.26); ConstructToken reads on or reports on every way out (R04.27). Rounds 8–10: every exit with the ERR token is preceded, on every path, by recording a lexer error — a must-pass-through on the control-flow graph that reads helper exits (R04.6); a local part is built only from a character that passed IsNameStartChar, across helper boundaries (R04.17).",
 "C05": "Also: every format string in the xpath packages is a constant or the function's own format parameter (R05.13); execError never returns (R05.10, on SSA); an error arm reaches its sink with no further test (R05.3). Round 6: no loop of the evaluator is counted in floating point (R05.14). Round 7: LRefEquals goes on for exactly one key name (R05.15). Rounds 8–10: the rune loops also accept a rune kept in a field of a state object and read by its method (R05.7). Seed round 8: the compile cone follows interface methods a lexer inherits by embedding; a checked type assertion is not used without its flag (R05.16).",
 "C06": "Also: assigning a captured variable's own cell is not counted as a write through shared state (effects engine). Round 6: R06.1 (machines frozen) had been passing vacuously and was repaired; no package-level channel, pool or synchronised map (R06.9). Seed round 8: no package-level array or slice serves as a scratch buffer (R06.10).",
 "C07": "Also: the word state makes progress (R07.11); line and column agree on the line terminator (R07.12). Round 6: no statement kind falls through the argument dispatch (R07.13). Round 7: no slice bound from a flag left by an earlier line (R07.14); the lexer scans the text it was handed (R07.15). Seed round 8: Parse defers only recover (R07.16).",
 "C08": "Also: '+' outside quotes is always the concatenation token (R08.14); when indentation stripping runs, the last token read is the piece's closing quote (R08.15); quoting dispatch and piece+rest are decided on SSA values under each closing-quote model (R08.3, R08.4). Round 6: comment scanners discard what they scanned on every path (R08.16); the argument interner's key is a pair (R08.17). Round 7: a backslash takes the next rune with it (R08.18); the terminator set of an unquoted word is exact, CR included (R08.19). Seed round 8: the string interner is keyed by the whole string (R08.20); lexSep moves by next() under isSep (R08.21); escape substitution is used by trimWhitespace alone (R08.22).",
 "C10": "Also: nothing computed from one line is carried into the next in the per-line decoding loop (R10.11); the argument interner's key keeps statement kind and text apart (R10.12). Round 6: the closing quote is the last token when indentation is stripped (R10.13); comment scanners discard what they scanned (R10.14). Round 7: positions are offsets into the text handed in (R10.15). Rounds 8–10: the column printed is evaluated as a linear form of the LastIndex result per range of that result and must be pos − index − 1 for every index from −1 up (R10.5). Seed round 8: R10.16–R10.19 (interner identity, separator set, no validator rewrites its argument, escapes only when double-quoted).",
 "C11": "Also: node.useTree has one reader (R11.12); objects carried through a reviewed map iteration are part of the review (R11.1); order-sensitive phases are located also when handed to a driver as a function value (R11.2). Round 6: the Compiler's mutable fields are the reviewed ones (R11.13); every derived identity is listed (R11.14). Round 7: Compiler.recover re-raises run-time errors only (R11.15).",
 "C12": "Also: the Compiler's mutable fields and their writers are a reviewed table (R12.10). Round 6: node.children is never shifted in place (R12.11); includes are merged before the import graph is sorted (R12.12); Clone is read on SSA (R12.2). Round 7: every if-feature of a node is evaluated (R12.13). Seed round 8: repeatable statements are added by applyChange on every path (R12.14); identity values are named relative to the configuration node (R12.15).",
 "C13": "Also: defaults are judged against every part of a multi-part range (R13.11); each part of a range/length argument is read on its own (R13.12). Round 6: a derived union may not list member types (R13.13). Round 7: a pattern is anchored as one group (R13.14); the default validated is the default reported (R13.15). Seed round 8: IsTypeRestriction holds for exactly the kinds between its markers (R13.16); no range statement skips createRangeBdry (R13.17).",
 "C14": "Also: the reference-status checker is called on every node of an augment/refine path (R14.11); staleness of an inherited status is decided by control flow (R14.7). Round 6: the last feature source that knows a feature decides (R14.12); the status rule does not depend on how a typedef's name is spelt (R14.13). Round 7: deviate replace refuses a property the target lacks (R14.14). Rounds 8–10: the reference-status error is raised exactly for same module ∧ status(src) < status(dst) (R14.2), a feature is enabled iff its own setting ∧ every dependency (the loop-carried value, R14.4), and the three deviate edits hit the child they name (R14.6) — each read off path conditions on the SSA form, through helpers. Seed round 8: no written status is returned before the comparison with the inherited one (R14.15).",
 "C15": "Also: AddWhenChildren attaches every when statement it is given (R15.10); a module's own imports precede those of its submodules (R15.11). Round 6: no table of compiled expressions on the Compiler (R15.12); deviate add attaches every property (R15.13). Round 7: error locations use the defining tree (R15.14); a prefix reaches the prefix map as written (R15.15). Seed round 8: every must written in a refine is attached (R15.16).",
 "C16": "Also: a value lies in a multi-part range iff some part holds it (R16.12); NewIdentityref stores the list as given (R16.13); every error constructor writes the path with pathutil.Pathstr (R16.14). Round 6: NewUnion keeps its members (R16.15); the decimal64 bounds table is exact for all 18 rows (R16.16); union.Validate leaves its scan only at a member that accepts (R16.17). Round 7: a derived string type keeps its base's patterns (R16.18). Seed round 8: R16.19 (identity names relative to the using module), R16.20 (block-escape table against the Unicode block table).",
 "C17": "Also: child tables are built at three reviewed places with the reviewed kind tests, also through a shared builder (R17.8); leaf/leaf-list name the first token too many (R17.9). Round 6: union-typed values (R17.10); every Path of a rejection is written by pathutil.Pathstr (R17.11). Round 7: NewList keeps the key order (R17.12); identityref compares the node-relative name (R17.13). Seed round 8: the decimal64 lexical check is unconditional (R17.14); the range loop is left early only on acceptance (R17.15).",
 "C18": "Also: checkMandatory enters a child only when isAChoice denies membership (R18.12); list cardinality is measured whatever the number of entries (R18.13). Round 6: a case is active through any member (R18.14); the unique-key scan is left only at the child looked for (R18.15); the cardinality table is evaluated on the function's exits under a model (R18.2, R18.5). Round 7: an active case is checked whatever else holds of its choice (R18.16); the unique key is the values, not a digest (R18.17). Rounds 8–10: a default is created, per default child, exactly when its name is absent from the explicit data and it is not under a choice or IsActiveDefault holds (one formula, R18.3/R18.8); leaf.HasDefault and leaf.Default are each ¬mandatory ∧ the type has a default (R18.3). Seed round 8: NewModelSet registers every top-level choice (R18.18).",
 "C19": "Also: JSON integers are kept digit for digit (R19.13); the XML decoder stays strict (R19.14). Round 6: every decoded value is validated (R19.15); an identity's prefix is bound to its own namespace in XML (R19.16). Round 7: CreateDataNode stores its values as given (R19.17); no writer sorts (R19.18). Seed round 8: YangDataChildren returns the stored slice (R19.19); the XML writer opens an element for every child of a kind (R19.20).",
 "C20": "Also: every combinator returns a function of its own on every path (R20.8); kind tests handed on as parameters are checked per caller (R20.5). Round 6: the compiler filters with the filter it was given, nil stays nil (R20.9). Round 7: IsOpd covers the three opd kinds (R20.10); BuildNode asks the node it built nothing (R20.11). Seed round 8: a choice is registered whatever is left inside it (R20.12).",
}

NOT_YET = "check under construction in this round (design in DESIGN.md §4); not claimed until armed"

ALL = ["C%02d" % i for i in range(1, 21)]


def main():
    checks = []
    for pid in ALL:
        c = CHECKS.get(pid)
        if not c:
            continue
        checks.append({
            "property_id": pid,
            "quick_cmd": "./check.sh %s quick" % pid,
            "thorough_cmd": "./check.sh %s thorough" % pid,
            "evidence_file": "evidence/%s.json" % pid,
            "replay_cmd_template": "./check.sh %s quick  # re-analyses the tree; the report at {path} names file:line, rule and construct" % pid,
            "engine": "yvcheck",
            "level_claimed": {"category": c["cat"], "text": c["text"] + (" " + LATER[pid] if pid in LATER else ""), "design_ref": c["ref"]},
            "level_note": c["note"],
            "technique": c["technique"],
        })
    na = [{"property_id": p, "reason": NA.get(p, NOT_YET)} for p in ALL if p not in CHECKS]
    m = {
        "version": 1,
        "setup_cmd": "./setup.sh",
        "hooks": {
            "guard": "verif",
            "enable": "none needed: the checks analyse source only; no hook or instrumentation exists in /repo",
            "baseline_off_cmd": "cd /repo && GOFLAGS=-mod=mod GOPROXY=off GOTOOLCHAIN=auto go test -json -vet=off -count=1 -timeout 25m ./...",
            "source_commits": SOURCE_COMMITS,
            "add_only": True,
        },
        "engines": [{
            "name": "yvcheck",
            "path": "checker/",
            "serves_properties": sorted(CHECKS.keys()),
            "kind_free_text": "repository-specific static analyser (go/packages + go/types + go/ssa + go/cfg + own yacc reader + goyacc regeneration); one sub-command per property; never executes yang-parser code",
        }],
        "checks": checks,
        "not_applicable": na,
        "notes": "Static analysis only. Each check re-loads /repo's working tree (leafref.go regenerated in memory as an overlay), reports constructs (package/function/table cell) and writes evidence/<id>.json itself. Known findings: known_findings.json.",
    }
    json.dump(m, open("MANIFEST.json", "w"), indent=1)
    print("MANIFEST.json: %d checks, %d not_applicable" % (len(checks), len(na)))


NA = {}
import subprocess
SOURCE_COMMITS = [l for l in reversed(subprocess.run(["git","-C","/repo","log","--format=%h %s","7008d44..HEAD"],capture_output=True,text=True).stdout.splitlines()) if l.strip()]

if __name__ == "__main__":
    main()

#!/bin/sh
# usage: check.sh <property> [quick|thorough]
# Analyses /repo's current working tree; nothing in /repo is executed or written.
cd "$(dirname "$0")"
need=0
[ -x bin/yvcheck ] && [ -x bin/goyacc ] || need=1
if [ $need -eq 0 ] && [ -n "$(find checker -name '*.go' -newer bin/yvcheck 2>/dev/null | head -1)" ]; then need=1; fi
if [ $need -eq 1 ]; then ./setup.sh >/dev/null || { echo "setup failed" >&2; exit 2; }; fi
exec bin/yvcheck -prop "$1" -tier "${2:-${VERIF_TIER:-quick}}" -repo "${YV_REPO:-/repo}" -verif "$(pwd)"

#!/bin/sh
# Build the checker and goyacc from files on disk only (offline).
set -e
cd "$(dirname "$0")"
export GOFLAGS=-mod=mod GOPROXY=off GOSUMDB=off GOTOOLCHAIN=local GOWORK=off
GO=${YV_GO:-go1.26.8}
mkdir -p bin evidence
(cd checker/goyacc029 && $GO build -o ../../bin/goyacc golang.org/x/tools/cmd/goyacc)
(cd checker && $GO build -o ../bin/yvcheck .)
echo "setup ok: $(ls bin | tr '\n' ' ')"

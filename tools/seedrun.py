#!/usr/bin/env python3
"""Run registered checks against the seeded changes in /verif/seeded/*.

For each seeded change: git -C /repo apply <patch>, run the check of its
property (or all checks with --all), record which rules fired, and undo the
change straight afterwards (git -C /repo checkout -- .). Evidence files are
saved and restored so that committed evidence always comes from the clean tree.

usage: seedrun.py [--all] [ids...]
"""
import json, os, re, shutil, subprocess, sys, tempfile

VERIF = "/verif"


def sh(cmd, cwd=None):
    p = subprocess.run(cmd, shell=True, cwd=cwd, stdout=subprocess.PIPE, stderr=subprocess.STDOUT)
    return p.returncode, p.stdout.decode(errors="replace")


def claimed():
    m = json.load(open(VERIF + "/MANIFEST.json"))
    return [c["property_id"] for c in m["checks"]]


def main():
    args = [a for a in sys.argv[1:] if not a.startswith("--")]
    allprops = "--all" in sys.argv
    ids = args or sorted(os.listdir(VERIF + "/seeded"))
    rc, st = sh("git -C /repo status --porcelain")
    if st.strip():
        raise SystemExit("/repo is not clean:\n" + st)
    sh("./check.sh C03 quick", cwd=VERIF)  # rebuilds bin/yvcheck if its sources changed
    save = tempfile.mkdtemp(prefix="evsave")
    shutil.copytree(VERIF + "/evidence", save + "/evidence")
    results = {}
    try:
        for sid in ids:
            d = VERIF + "/seeded/" + sid
            if not os.path.isfile(d + "/patch.diff"):
                continue
            patch = d + "/patch.diff"
            if os.path.isfile(d + "/patch.rebased.diff"):
                patch = d + "/patch.rebased.diff"
            rc, out = sh("git -C /repo apply --check " + patch)
            if rc != 0:
                results[sid] = {"applied": False, "why": out.strip()[-300:]}
                print("%s: patch does not apply to /repo HEAD (needs patch.rebased.diff): %s" % (sid, out.strip().splitlines()[-1]))
                continue
            sh("git -C /repo apply " + patch)
            try:
                prop = sid[:3]
                props = claimed() if allprops else [prop]
                fired = {}
                props = [p for p in props if p in claimed()]
                from concurrent.futures import ThreadPoolExecutor
                with ThreadPoolExecutor(max_workers=10) as ex:
                    outs = list(ex.map(lambda p: sh("bin/yvcheck -prop %s -tier quick" % p, cwd=VERIF), props))
                for p, (rc, out) in zip(props, outs):
                    rules = sorted(set(re.findall(r"open: \[(R[\d.]+[a-z]?)\]", out)))
                    if rc == 1 and "VIOLATION property=" in out:
                        fired[p] = rules
                    elif rc not in (0, 1):
                        fired[p] = ["<checker exit %d>" % rc]
                results[sid] = {"applied": True, "fired": fired}
                own = fired.get(prop)
                print("%s: %s%s" % (sid, "DETECTED by %s %s" % (prop, own) if own else "missed by " + prop,
                                    ("; also " + ", ".join("%s %s" % kv for kv in fired.items() if kv[0] != prop)) if len(fired) > (1 if own else 0) else ""))
            finally:
                sh("git -C /repo checkout -- .")
                sh("git -C /repo clean -fdq")
    finally:
        shutil.rmtree(VERIF + "/evidence")
        shutil.copytree(save + "/evidence", VERIF + "/evidence")
        shutil.rmtree(save)
    merged = {}
    try:
        merged = json.load(open(VERIF + "/seeded/RESULTS.json"))
    except Exception:
        pass
    for k, v in results.items():
        if not allprops and k in merged and merged[k].get("applied") and v.get("applied"):
            # a single-property run refreshes that property's entry only
            f = dict(merged[k].get("fired", {}))
            f.pop(k[:3], None)
            f.update(v.get("fired", {}))
            v = {"applied": True, "fired": f}
        merged[k] = v
    json.dump(merged, open(VERIF + "/seeded/RESULTS.json", "w"), indent=1, sort_keys=True)


if __name__ == "__main__":
    main()

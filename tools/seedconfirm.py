#!/usr/bin/env python3
"""Confirm a seeded change delivered by a sub-agent, independently, in a scratch
worktree at the pinned commit; on success store it under /verif/seeded/<id>/.

usage: seedconfirm.py C01 A [--keep-worktree]
"""
import json, os, re, shutil, subprocess, sys

PIN = "7008d44"
WT = "/tmp/seedconfirm/w"
ENV = dict(os.environ, GOFLAGS="-mod=mod", GOPROXY="off", GOTOOLCHAIN="auto")


def sh(cmd, cwd=None, check=False, timeout=900):
    p = subprocess.run(cmd, shell=True, cwd=cwd, env=ENV, stdout=subprocess.PIPE, stderr=subprocess.STDOUT, timeout=timeout)
    if check and p.returncode != 0:
        raise SystemExit("FAILED: %s\n%s" % (cmd, p.stdout.decode(errors="replace")[-3000:]))
    return p.returncode, p.stdout.decode(errors="replace")


def main():
    pid, var = sys.argv[1], sys.argv[2]
    rnd = 1
    if "--round" in sys.argv:
        rnd = int(sys.argv[sys.argv.index("--round") + 1])
    global PIN
    srcroot = "/tmp/mut" if rnd == 1 else "/tmp/mut%d" % rnd
    if rnd > 1:
        # later rounds were written against the /repo HEAD of that time (recorded in PIN_ROUND)
        PIN = open(srcroot + "/PIN").read().strip()
    src = "%s/%s.out/%s" % (srcroot, pid, var)
    meta = json.load(open(src + "/meta.json"))
    demo = meta.get("demo", "")
    demo_files = [f for f in os.listdir(src) if f.endswith("_test.go") or f == "main.go"]
    assert demo_files, "no demo"
    m = re.search(r"go test[^\n]*?(\./[\w/]+)", demo)
    pkgdir = m.group(1) if m else None
    if not pkgdir:
        m = re.search(r"((?:xpath|parse|compile|schema|data|testutils)[\w/]*)/[\w.]+_test\.go", demo)
        pkgdir = "./" + m.group(1)
    pkgdir = pkgdir.rstrip("/")
    m = re.search(r"-run[ =]+'?\"?([\w|^$.*]+)", demo)
    runpat = m.group(1) if m else "."
    race = "-race" in demo and "optionally" not in demo.split("-race")[0][-40:]

    if not os.path.isdir(WT):
        os.makedirs(os.path.dirname(WT), exist_ok=True)
        sh("git -C /repo worktree add --detach %s %s" % (WT, PIN), check=True)
    sh("git reset -q --hard %s && git clean -fdq" % PIN, cwd=WT, check=True)
    sh("/tmp/tools/gen.sh %s" % WT, check=True)

    rc, out = sh("git apply --check %s/patch.diff" % src, cwd=WT)
    if rc != 0:
        raise SystemExit("patch does not apply at the pin:\n" + out)
    sh("git apply %s/patch.diff" % src, cwd=WT, check=True)
    rc, names = sh("git diff --name-only", cwd=WT)
    touched = names.split()
    bad = [f for f in touched if f.endswith("_test.go")]
    if bad:
        raise SystemExit("patch touches test files: %s" % bad)
    rc, out = sh("go build ./... && go vet ./... >/dev/null 2>&1; go build ./...", cwd=WT)
    if rc != 0:
        raise SystemExit("does not build:\n" + out[-2000:])
    # existing tests
    rc, after = sh("/tmp/tools/testall.sh %s" % WT)
    base = set(l for l in open("/tmp/tools/baseline_full.txt").read().splitlines() if l.startswith("PASS"))
    aft = set(l for l in after.splitlines() if l.startswith("PASS"))
    lost = sorted(base - aft)
    if lost:
        raise SystemExit("baseline tests lost with the patch: %s" % lost[:5])
    # demo with patch
    dest = os.path.join(WT, pkgdir)
    for f in demo_files:
        shutil.copy(os.path.join(src, f), os.path.join(dest, "zz_seed_" + f))
    cmd = "go test -vet=off -count=1 %s -run '%s' %s" % ("-race" if race else "", runpat, pkgdir)
    rc1, out1 = sh(cmd, cwd=WT, timeout=600)
    # demo without patch
    sh("git apply -R %s/patch.diff" % src, cwd=WT, check=True)
    rc2, out2 = sh(cmd, cwd=WT, timeout=600)
    for f in demo_files:
        os.remove(os.path.join(dest, "zz_seed_" + f))
    ok = rc1 != 0 and rc2 == 0 and ("FAIL" in out1 or "panic" in out1) and "[build failed]" not in out1
    print("%s/%s (round %d): with patch rc=%d, without rc=%d, baseline PASS kept=%d -> %s" % (pid, var, rnd, rc1, rc2, len(base), "CONFIRMED" if ok else "NOT CONFIRMED"))
    if not ok:
        print("--- with patch:\n" + out1[-1500:] + "\n--- without:\n" + out2[-1500:])
        raise SystemExit(1)
    outvar = var if rnd == 1 else chr(ord(var) + 2 * (rnd - 1))
    if "--letters" in sys.argv:
        # explicit target letters for A and B (round 7 was stored as N/O, round 8 as P/Q)
        outvar = sys.argv[sys.argv.index("--letters") + 1][ord(var) - ord("A")]
    dst = "/verif/seeded/%s%s" % (pid, outvar)
    os.makedirs(dst, exist_ok=True)
    shutil.copy(src + "/patch.diff", dst + "/patch.diff")
    for f in demo_files:
        shutil.copy(os.path.join(src, f), os.path.join(dst, f + ".txt"))  # .txt: not compiled by anything under /verif
    meta2 = {
        "property": pid, "variant": outvar, "round": rnd,
        "summary": meta.get("summary"), "site": meta.get("site"), "needs": meta.get("needs"),
        "touched": touched,
        "demo": {"copy_to": pkgdir, "files": [f + ".txt (rename to *_test.go)" for f in demo_files], "command": cmd},
        "confirmed": {
            "at_commit": PIN,
            "ran": [
                "git apply patch.diff in a scratch worktree at the pin (+ generated leafref.go)",
                "go build ./...: ok",
                "/tmp/tools/testall.sh: all %d baseline-PASS tests (133 official + those reachable with leafref.go generated) still PASS" % len(base),
                "%s -> exit %d (fails) with the patch" % (cmd, rc1),
                "same command after git apply -R -> exit %d (passes)" % rc2,
            ],
        },
        "detected_by": "see DESIGN.md section 9 (filled in by tools/seedrun.py)",
    }
    json.dump(meta2, open(dst + "/meta.json", "w"), indent=1)


if __name__ == "__main__":
    main()

#!/usr/bin/env python3
"""Regenerates the per-property rule catalogue of DESIGN.md (between the
BEGIN/END RULES markers) from the evidence files the checks wrote, and the
seeded-change detection matrix (between BEGIN/END SEEDED markers) from
seeded/RESULTS.json + seeded/*/meta.json, so the document cannot drift from
what the checker actually runs."""
import json, os, re, glob

V = "/verif"
props = {}
for l in open(V + "/properties.jsonl"):
    p = json.loads(l)
    props[p["id"]] = p
man = {c["property_id"]: c for c in json.load(open(V + "/MANIFEST.json"))["checks"]}
known = json.load(open(V + "/known_findings.json"))

out = []
for pid in sorted(props):
    ev = json.load(open(f"{V}/evidence/{pid}.json"))
    cov = ev["coverage"]
    out.append(f"### {pid} — {props[pid]['title']}  (level `{ev['level']}`)\n")
    out.append(f"*Technique:* {man[pid]['technique']}.\n")
    out.append(f"*On the current tree:* {cov['obligations']} obligations, {cov['discharged']} discharged, {cov['known_findings']} known findings.\n")
    out.append("| rule | decides | instances (floor) |\n|---|---|---|")
    for r in cov["rules"]:
        out.append(f"| {r['id']} | {r['text']} | {r['instances']} ({r['floor']}) |")
    nd = cov.get("not_decided") or []
    if nd:
        out.append("\n*Not decided:* " + "; ".join(nd) + ".")
    kf = [f for f in known["findings"] if f["property"] == pid]
    if kf:
        out.append("\n*Known findings (recorded, not repaired):* " + "; ".join(f"`{f['rule']}` {f['construct']}" for f in kf) + ".")
    out.append("")
rules_md = "\n".join(out)

res = {}
try:
    res = json.load(open(V + "/seeded/RESULTS.json"))
except Exception:
    pass
rows = ["| id | site | what it needs to manifest | detected by |", "|---|---|---|---|"]
for d in sorted(glob.glob(V + "/seeded/C*/")):
    sid = os.path.basename(d.rstrip("/"))
    try:
        m = json.load(open(d + "meta.json"))
    except Exception:
        continue
    r = res.get(sid, {})
    fired = r.get("fired", {})
    det = "; ".join(f"{k} {','.join(v)}" for k, v in sorted(fired.items())) or "—"
    if "status_on_fixed_tree" in m:
        det = "neutralised by a fix (must stay silent; fires R05.2 on the pinned commit)"
    site = str(m.get("site", "")).replace("|", "/")[:110]
    needs = str(m.get("needs", "")).replace("|", "/").replace("\n", " ")
    needs = needs[:200] + ("…" if len(needs) > 200 else "")
    rows.append(f"| {sid} | {site} | {needs} | {det} |")
seeded_md = "\n".join(rows)

s = open(V + "/DESIGN.md").read()
s = re.sub(r"(<!-- BEGIN RULES -->).*?(<!-- END RULES -->)", lambda m: m.group(1) + "\n" + rules_md + "\n" + m.group(2), s, flags=re.S)
s = re.sub(r"(<!-- BEGIN SEEDED -->).*?(<!-- END SEEDED -->)", lambda m: m.group(1) + "\n" + seeded_md + "\n" + m.group(2), s, flags=re.S)
open(V + "/DESIGN.md", "w").write(s)
print("DESIGN.md: rules for %d properties, %d seeded rows" % (len(props), len(rows) - 2))

module mechref

go 1.23

// mechref applies one mechanical, behaviour-preserving rewrite to every
// non-test, non-generated Go file below a directory (a scratch copy of the
// repository, never /repo itself).  It is used to measure how the checks react
// to refactorings: after any of these rewrites every check must stay silent.
//
//	mechref -t invert|nest|chain|incdec <dir>
//
//	invert: if c { A } else { B }        ->  if !(c) { B } else { A }
//	nest:   if a && b { S } (no else)    ->  if a { if b { S } }
//	chain:  switch { case c1: A ... }    ->  if c1 { A } else if ... (no break/fallthrough inside)
//	incdec: x += 1 / x -= 1 / x = x + 1  ->  x++ / x--
package main

import (
	"bytes"
	"flag"
	"fmt"
	"go/ast"
	"go/format"
	"go/parser"
	"go/token"
	"os"
	"path/filepath"
	"strings"
)

var nChanged int

func main() {
	t := flag.String("t", "invert", "transformation")
	flag.Parse()
	root := flag.Arg(0)
	filepath.Walk(root, func(path string, info os.FileInfo, err error) error {
		if err != nil || info.IsDir() || !strings.HasSuffix(path, ".go") || strings.HasSuffix(path, "_test.go") {
			return nil
		}
		if strings.Contains(path, "/vendor/") || strings.Contains(path, "/.git/") {
			return nil
		}
		src, err := os.ReadFile(path)
		if err != nil {
			return nil
		}
		if bytes.Contains(src[:min(len(src), 400)], []byte("Code generated")) || bytes.Contains(src[:min(len(src), 400)], []byte("DO NOT EDIT")) {
			return nil
		}
		fset := token.NewFileSet()
		f, err := parser.ParseFile(fset, path, src, parser.ParseComments)
		if err != nil {
			return nil
		}
		before := nChanged
		switch *t {
		case "invert":
			rewriteStmts(f, invert)
		case "nest":
			rewriteStmts(f, nest)
		case "chain":
			rewriteStmts(f, chain)
		case "incdec":
			rewriteStmts(f, incdec)
		}
		if nChanged == before {
			return nil
		}
		// comments inside moved blocks would be misplaced by the printer: drop
		// free-floating comments of rewritten files (behaviour is what matters)
		var keep []*ast.CommentGroup
		for _, cg := range f.Comments {
			if cg.End() < f.Package { // build constraints, licence
				keep = append(keep, cg)
			}
		}
		f.Comments = keep
		var buf bytes.Buffer
		if err := format.Node(&buf, fset, f); err != nil {
			fmt.Fprintln(os.Stderr, path, err)
			return nil
		}
		os.WriteFile(path, buf.Bytes(), info.Mode())
		return nil
	})
	fmt.Println("rewritten statements:", nChanged)
}

func min(a, b int) int {
	if a < b {
		return a
	}
	return b
}

// rewriteStmts applies fn to every statement in every statement list.
func rewriteStmts(f *ast.File, fn func(ast.Stmt) ast.Stmt) {
	var lists func(n ast.Node)
	lists = func(n ast.Node) {
		ast.Inspect(n, func(x ast.Node) bool {
			switch b := x.(type) {
			case *ast.BlockStmt:
				for i, s := range b.List {
					b.List[i] = fn(s)
				}
			case *ast.CaseClause:
				for i, s := range b.Body {
					b.Body[i] = fn(s)
				}
			case *ast.CommClause:
				for i, s := range b.Body {
					b.Body[i] = fn(s)
				}
			}
			return true
		})
	}
	lists(f)
}

func not(e ast.Expr) ast.Expr {
	return &ast.UnaryExpr{Op: token.NOT, X: &ast.ParenExpr{X: e}}
}

func invert(s ast.Stmt) ast.Stmt {
	is, ok := s.(*ast.IfStmt)
	if !ok || is.Else == nil {
		return s
	}
	eb, ok := is.Else.(*ast.BlockStmt)
	if !ok {
		return s
	}
	nChanged++
	return &ast.IfStmt{Init: is.Init, Cond: not(is.Cond), Body: eb, Else: is.Body}
}

func nest(s ast.Stmt) ast.Stmt {
	is, ok := s.(*ast.IfStmt)
	if !ok || is.Else != nil || is.Init != nil {
		return s
	}
	be, ok := is.Cond.(*ast.BinaryExpr)
	if !ok || be.Op != token.LAND {
		return s
	}
	nChanged++
	inner := &ast.IfStmt{Cond: be.Y, Body: is.Body}
	return &ast.IfStmt{Cond: be.X, Body: &ast.BlockStmt{List: []ast.Stmt{inner}}}
}

// hasBreak: an unlabelled break or a fallthrough that would refer to the switch.
func hasBreak(stmts []ast.Stmt) bool {
	found := false
	var walk func(n ast.Node, inner bool)
	walk = func(n ast.Node, inner bool) {
		ast.Inspect(n, func(x ast.Node) bool {
			switch y := x.(type) {
			case *ast.ForStmt, *ast.RangeStmt, *ast.SwitchStmt, *ast.TypeSwitchStmt, *ast.SelectStmt:
				if x != n {
					// breaks inside belong to the inner statement; fallthrough cannot cross
					return false
				}
			case *ast.FuncLit:
				return false
			case *ast.BranchStmt:
				if (y.Tok == token.BREAK && y.Label == nil) || y.Tok == token.FALLTHROUGH {
					found = true
				}
			}
			return true
		})
	}
	for _, s := range stmts {
		walk(s, false)
	}
	return found
}

func chain(s ast.Stmt) ast.Stmt {
	sw, ok := s.(*ast.SwitchStmt)
	if !ok || sw.Tag != nil || sw.Init != nil || len(sw.Body.List) == 0 {
		return s
	}
	var def *ast.CaseClause
	var cases []*ast.CaseClause
	for i, c := range sw.Body.List {
		cc := c.(*ast.CaseClause)
		if hasBreak(cc.Body) {
			return s
		}
		if cc.List == nil {
			if i != len(sw.Body.List)-1 {
				return s // default not last: order of evaluation would need care
			}
			def = cc
			continue
		}
		cases = append(cases, cc)
	}
	if len(cases) == 0 {
		return s
	}
	var build func(i int) ast.Stmt
	build = func(i int) ast.Stmt {
		cc := cases[i]
		var cond ast.Expr
		for _, e := range cc.List {
			if cond == nil {
				cond = e
			} else {
				cond = &ast.BinaryExpr{X: cond, Op: token.LOR, Y: e}
			}
		}
		is := &ast.IfStmt{Cond: cond, Body: &ast.BlockStmt{List: cc.Body}}
		if i+1 < len(cases) {
			is.Else = build(i + 1)
		} else if def != nil {
			is.Else = &ast.BlockStmt{List: def.Body}
		}
		return is
	}
	nChanged++
	return build(0)
}

func incdec(s ast.Stmt) ast.Stmt {
	as, ok := s.(*ast.AssignStmt)
	if !ok || len(as.Lhs) != 1 || len(as.Rhs) != 1 {
		return s
	}
	one := func(e ast.Expr) bool {
		bl, ok := e.(*ast.BasicLit)
		return ok && bl.Kind == token.INT && bl.Value == "1"
	}
	switch as.Tok {
	case token.ADD_ASSIGN:
		if one(as.Rhs[0]) {
			nChanged++
			return &ast.IncDecStmt{X: as.Lhs[0], Tok: token.INC}
		}
	case token.SUB_ASSIGN:
		if one(as.Rhs[0]) {
			nChanged++
			return &ast.IncDecStmt{X: as.Lhs[0], Tok: token.DEC}
		}
	case token.ASSIGN:
		if be, ok := as.Rhs[0].(*ast.BinaryExpr); ok && one(be.Y) && (be.Op == token.ADD || be.Op == token.SUB) {
			if fmt.Sprint(be.X) == fmt.Sprint(as.Lhs[0]) {
				if _, isIdent := as.Lhs[0].(*ast.Ident); isIdent {
					nChanged++
					tok := token.INC
					if be.Op == token.SUB {
						tok = token.DEC
					}
					return &ast.IncDecStmt{X: as.Lhs[0], Tok: tok}
				}
			}
		}
	}
	return s
}
